"""Exact Jaccard distance oracle: |A xor B| / |A or B| rounded once to float32 (C02/C15/C05)."""
from fractions import Fraction
import numpy as np


def round_fraction_f32_bits(num: int, den: int) -> int:
	"""Correctly rounded (nearest-even) float32 bit pattern of num/den, 0 <= num <= den, den > 0.
	Pure integer arithmetic; results here are in [0,1] so no overflow; handles normal range only
	(smallest positive ratio 1/den with den < 2^64 is > 2^-126)."""
	if num == 0:
		return 0
	# find e with 2^e <= num/den < 2^(e+1)
	e = num.bit_length() - den.bit_length()
	if (num << max(-e, 0)) < (den << max(e, 0)):
		e -= 1
	# mantissa m = round(num/den * 2^(23-e)) in [2^23, 2^24]
	sh = 23 - e
	n2, d2 = (num << sh, den) if sh >= 0 else (num, den << -sh)
	q, r = divmod(n2, d2)
	if 2 * r > d2 or (2 * r == d2 and (q & 1)):
		q += 1
	if q == 1 << 24:
		q >>= 1
		e += 1
	assert (1 << 23) <= q < (1 << 24)
	return ((e + 127) << 23) | (q - (1 << 23))


def dist_su(A: set, B: set):
	u = len(A | B)
	s = len(A ^ B)
	return s, u


def expected_bits(s: int, u: int):
	"""float32 bit pattern of s/u rounded once, computed two independent ways for u < 2^24 (exact
	float32 operands, one IEEE division vs. integer arithmetic); None if they disagree (= oracle
	broken -> inconclusive). For u >= 2^24 only the integer method is used."""
	if u == 0:
		return 0
	b1 = round_fraction_f32_bits(s, u)
	if u < (1 << 24):
		b2 = int((np.float32(s) / np.float32(u)).view('u4'))
		return b1 if b1 == b2 else None
	return b1


def bits(x) -> int:
	return int(np.float32(x).view('u4'))
