"""Parent-pointer taxonomy model with the classification rules of C03 / C10 / C09, written from the
statements. No import from gambit."""


class T:
	__slots__ = ('i', 'parent', 'thr', 'report', 'name')

	def __init__(self, i, parent=None, thr=None, report=True, name=None):
		self.i, self.parent, self.thr, self.report, self.name = i, parent, thr, report, name or f't{i}'

	def __repr__(self):
		return f'T{self.i}'


def lineage(t):
	"""t, parent, ..., root"""
	out = []
	while t is not None:
		out.append(t)
		t = t.parent
	return out


def is_ancestor_or_self(a, t):
	return a in lineage(t)


def comparable(a, b):
	return is_ancestor_or_self(a, b) or is_ancestor_or_self(b, a)


def matching(t, d):
	"""Most specific taxon in t's lineage carrying a threshold not smaller than d."""
	for x in lineage(t):
		if x.thr is not None and d <= x.thr:
			return x
	return None


def next_taxon(t, d):
	"""Nearest threshold-bearing taxon strictly below the prediction in t's lineage; None when there is none
	(in particular when the prediction is the genome's own taxon); the topmost threshold-bearing one when
	nothing is predicted."""
	L = lineage(t)
	pred = matching(t, d)
	with_thr = [x for x in L if x.thr is not None]
	if pred is None:
		return with_thr[-1] if with_thr else None
	below = [x for x in L[:L.index(pred)] if x.thr is not None]
	return below[-1] if below else None


def reportable(t):
	for x in lineage(t) if t is not None else []:
		if x.report:
			return x
	return None


def lca(taxa):
	taxa = list(taxa)
	if not taxa:
		return None
	common = lineage(taxa[0])
	for t in taxa[1:]:
		lt = set(lineage(t))
		common = [x for x in common if x in lt]
	return common[0] if common else None


def strict_consensus(matched):
	"""-> (consensus or None, has_common_ancestor: bool). matched: non-empty iterable of taxa."""
	ms = list(dict.fromkeys(matched))
	# single lineage? -> most specific
	deepest = max(ms, key=lambda t: len(lineage(t)))
	if all(is_ancestor_or_self(m, deepest) for m in ms):
		return deepest, True
	minimal = [m for m in ms if not any(o is not m and is_ancestor_or_self(m, o) for o in ms)]
	c = lca(minimal)
	return c, c is not None


def strictly_below(t, anc):
	return t is not anc and is_ancestor_or_self(anc, t)
