"""Validator (not a second implementation): is this rooted tree a valid UPGMA (average-linkage)
dendrogram of the distance matrix? Accepts every legal tie-breaking."""
import itertools


def validate(root, leaf_index, D, tol):
	"""root: newick.Node; leaf_index: dict id(leaf node) -> matrix index; D: n x n symmetric list/array (float);
	tol: absolute tolerance on heights. Returns list of problem strings (empty = valid)."""
	problems = []
	height = {}
	members = {}

	def walk(n):
		if not n.children:
			height[id(n)] = 0.0
			members[id(n)] = frozenset([leaf_index[id(n)]])
			return
		for c in n.children:
			walk(c)
		hs = [height[id(c)] + (c.length or 0.0) for c in n.children]
		if max(hs) - min(hs) > tol:
			problems.append(f'leaves not equidistant below an internal node: child heights+branch = {hs}')
		height[id(n)] = sum(hs) / len(hs)
		members[id(n)] = frozenset().union(*(members[id(c)] for c in n.children))
	walk(root)
	if problems:
		return problems
	internal = []

	def collect(n):
		if n.children:
			internal.append(n)
			for c in n.children:
				collect(c)
	collect(root)
	internal.sort(key=lambda n: (round(height[id(n)] / max(tol, 1e-12)) if False else height[id(n)], len(members[id(n)])))
	# replay merges; with ties inside tol the order among tied nodes must respect child-before-parent: sort key uses subtree size second,
	# but heights within tol of each other may be mis-ordered by noise: process with a ready-set instead
	current = {frozenset([i]) for i in range(len(D))}
	pending = list(internal)

	def avg(A, B):
		return sum(D[a][b] for a in A for b in B) / (len(A) * len(B))
	while pending:
		ready = [n for n in pending if all(members[id(c)] in current for c in n.children)]
		if not ready:
			problems.append('internal structure inconsistent with a sequence of cluster merges')
			break
		n = min(ready, key=lambda x: height[id(x)])
		pending.remove(n)
		if len(n.children) != 2:
			problems.append(f'internal node with {len(n.children)} children')
			break
		A, B = (members[id(c)] for c in n.children)
		h = height[id(n)]
		d = avg(A, B)
		if abs(d - h) > tol:
			problems.append(f'node joining {sorted(A)} and {sorted(B)} has height {h!r} but their average-linkage distance is {d!r}')
			break
		best = min(avg(X, Y) for X, Y in itertools.combinations(current, 2))
		if d > best + tol:
			problems.append(f'clusters {sorted(A)} + {sorted(B)} merged at {d!r} although a closer pair existed at {best!r}')
			break
		current.discard(A); current.discard(B); current.add(A | B)
	return problems
