"""Reference definition of a GAMBIT signature (C01/C06/C07), written from the statement only.
No import from gambit."""

_COMP = {65: 84, 84: 65, 67: 71, 71: 67, 97: 116, 116: 97, 99: 103, 103: 99}
_DIGIT = {65: 0, 67: 1, 71: 2, 84: 3}


def upper(b: bytes) -> bytes:
	return bytes(x - 32 if 97 <= x <= 122 else x for x in b)


def revcomp(b: bytes) -> bytes:
	"""A<->T, C<->G preserving case, every other byte unchanged, mirrored."""
	return bytes(_COMP.get(x, x) for x in reversed(b))


def kmer_index(kmer: bytes):
	"""Base-4 positional code (A<C<G<T, first base most significant) or None if any non-ACGT byte.
	Case-insensitive."""
	idx = 0
	for x in kmer:
		if 97 <= x <= 122:
			x -= 32
		d = _DIGIT.get(x)
		if d is None:
			return None
		idx = idx * 4 + d
	return idx


def index_kmer(idx: int, k: int) -> bytes:
	out = bytearray(k)
	for j in range(k):
		out[k - 1 - j] = b'ACGT'[idx % 4]
		idx //= 4
	return bytes(out)


def dtype_for(k: int) -> str:
	return 'u1' if k <= 4 else 'u2' if k <= 8 else 'u4' if k <= 16 else 'u8'


def occurrences(k: int, prefix: bytes, seq: bytes):
	"""All (strand, p) where prefix occurs at p on that strand (0 = given, 1 = reverse complement,
	coordinates on that strand) with p + |prefix| + k <= len."""
	prefix = upper(prefix)
	lp = len(prefix)
	s = upper(seq)
	out = []
	for strand, hay in ((0, s), (1, revcomp(s))):
		start = 0
		while True:
			p = hay.find(prefix, start)
			if p < 0 or p + lp + k > len(hay):
				break
			out.append((strand, p, hay[p + lp:p + lp + k]))
			start = p + 1
	return out


def signature_set(k: int, prefix: bytes, seqs) -> set:
	res = set()
	for seq in seqs:
		for _, _, kmer in occurrences(k, prefix, seq):
			i = kmer_index(kmer)
			if i is not None:
				res.add(i)
	return res


def signature(k, prefix, seqs):
	return sorted(signature_set(k, prefix, seqs))


def expected_matches(k: int, prefix: bytes, seq: bytes):
	"""find_kmers-level expectation in the *given* strand's coordinates:
	set of (reverse, pos) with pos = index of the first prefix nucleotide in seq (for reverse
	matches that is the highest index of the occurrence)."""
	n = len(seq)
	out = set()
	for strand, p, _ in occurrences(k, prefix, seq):
		out.add((False, p) if strand == 0 else (True, n - 1 - p))
	return out
