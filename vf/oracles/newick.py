"""Minimal Newick parser (quoted labels with '' escapes, branch lengths incl. exponent notation). No Bio import."""


class Node:
	__slots__ = ('name', 'length', 'children', 'parent')

	def __init__(self):
		self.name, self.length, self.children, self.parent = None, None, [], None

	def leaves(self):
		if not self.children:
			return [self]
		out = []
		for c in self.children:
			out.extend(c.leaves())
		return out


class NewickError(ValueError):
	pass


def parse(text):
	"""Parse exactly one tree terminated by ';' (surrounding whitespace allowed). Returns root Node."""
	s = text.strip()
	if not s.endswith(';'):
		raise NewickError('no terminating semicolon')
	pos = 0

	def label():
		nonlocal pos
		if pos < len(s) and s[pos] == "'":
			pos += 1
			out = []
			while True:
				if pos >= len(s):
					raise NewickError('unterminated quoted label')
				if s[pos] == "'":
					if pos + 1 < len(s) and s[pos + 1] == "'":
						out.append("'"); pos += 2; continue
					pos += 1
					break
				out.append(s[pos]); pos += 1
			return ''.join(out)
		start = pos
		while pos < len(s) and s[pos] not in '(),:;[]':
			pos += 1
		raw = s[start:pos].strip()
		return raw.replace('_', ' ') if False else (raw or None)

	def length(node):
		nonlocal pos
		if pos < len(s) and s[pos] == ':':
			pos += 1
			start = pos
			while pos < len(s) and s[pos] not in '(),;[]':
				pos += 1
			try:
				node.length = float(s[start:pos])
			except ValueError:
				raise NewickError(f'bad branch length {s[start:pos]!r}')

	def subtree():
		nonlocal pos
		n = Node()
		if pos < len(s) and s[pos] == '(':
			pos += 1
			while True:
				c = subtree()
				c.parent = n
				n.children.append(c)
				if pos >= len(s):
					raise NewickError('unbalanced parentheses')
				if s[pos] == ',':
					pos += 1
					continue
				if s[pos] == ')':
					pos += 1
					break
				raise NewickError(f'unexpected {s[pos]!r} at {pos}')
		n.name = label()
		# optional confidence / comment not produced by the writer
		length(n)
		return n

	root = subtree()
	if pos >= len(s) or s[pos] != ';':
		raise NewickError(f'trailing content at {pos}: {s[pos:pos + 20]!r}')
	if s[pos + 1:].strip():
		raise NewickError('more than one tree / trailing content after ;')
	return root
