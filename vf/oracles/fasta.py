"""FASTA writer with explicit control over layout (C06/C13/C08). No import from gambit."""
import gzip


def fasta_bytes(contigs, width=60, eol=b'\n', final_newline=True, names=None):
	"""contigs: list of bytes. width None/0 = one line per contig."""
	out = []
	for i, seq in enumerate(contigs):
		name = (names[i] if names else f'contig{i + 1} len={len(seq)}').encode()
		lines = [b'>' + name]
		if not width:
			lines.append(bytes(seq))
		else:
			for j in range(0, len(seq), width):
				lines.append(bytes(seq[j:j + width]))
			if len(seq) == 0:
				pass
		out.extend(lines)
	data = eol.join(out)
	if final_newline and out:
		data += eol
	return data


def write_fasta(path, contigs, width=60, eol=b'\n', final_newline=True, gz=False, names=None):
	data = fasta_bytes(contigs, width, eol, final_newline, names)
	if gz == 'multi':
		# several gzip members in one file (what bgzip / `cat a.gz b.gz` produce): member boundaries at arbitrary byte positions
		cuts = sorted({len(data) // 3, (2 * len(data)) // 3, min(50, len(data))}) if len(data) > 3 else []
		parts = [data[a:b] for a, b in zip([0] + cuts, cuts + [len(data)])]
		data = b''.join(gzip.compress(p, mtime=0) for p in parts)
	elif gz:
		data = gzip.compress(data, mtime=0)
	with open(path, 'wb') as f:
		f.write(data)
	return path


def soft_mask(seq):
	"""Letter case as assemblies carry it: mostly upper case, some records soft-masked (lower-case stretches inside upper case), some
	entirely lower case, some lower case with upper-case N runs. Drawn from a generator of its own (seeded by the content), so the
	caller's random stream is the same with and without it."""
	import random as _r
	r = _r.Random(len(seq) * 1000003 + sum(seq[:64]))
	c = r.random()
	if c < 0.55 or len(seq) < 40:
		return seq
	if c < 0.65:
		return seq.lower()
	b = bytearray(seq)
	if c < 0.72:
		b = bytearray(seq.lower())
		for _ in range(r.randint(1, 3)):
			a = r.randrange(len(b) - 8)
			b[a:a + 5] = b'NNNNN'
		return bytes(b)
	for _ in range(r.randint(1, 6)):
		a = r.randrange(len(b) - 20)
		e = a + r.randint(1, max(2, len(b) // 4))
		b[a:e] = bytes(b[a:e]).lower()
	return bytes(b)
