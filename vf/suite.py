"""Run (part of) the repository's own unedited test suite with the contracts on (DESIGN.md 2.6)."""
import os, json, subprocess


def run_under_contracts(sh, ctx):
	from vf import core
	rep = ctx.workdir / 'contracts.json'
	env = core.worker_env({'VERIF_CONTRACTS': ','.join(sh['which']), 'VERIF_CONTRACT_REPORT': str(rep)})
	cmd = [core.PY, '-m', 'pytest', '-q', '-p', 'no:cacheprovider', '-p', 'vf.pytest_contracts', '--timeout=900', '--continue-on-collection-errors', '-x' if False else '-q'] + sh['tests']
	p = subprocess.run(cmd, cwd=str(core.REPO), env=env, capture_output=True, text=True, timeout=sh.get('timeout', 1500))
	if not rep.exists():
		ctx.inconc(f'repository tests under contracts produced no report (rc={p.returncode}): {p.stdout[-300:]} {p.stderr[-300:]}')
		return
	r = json.loads(rep.read_text())
	ctx.notes['suite_under_contracts'] = dict(tests=sh['tests'], collected=r.get('collected'), pytest_exit=r.get('exitstatus'), rebound=r.get('rebound'), evaluations=r.get('evaluations'))
	n = 0
	for k, v in r['evaluations'].items():
		ctx.count(f'suite_contract_evals:{k}', v)
		n += v
	ctx.case(('suite-contracts', sh['tests'], sh['which']), nontrivial=n > 0, n=max(n, 1))
	for v in r['violations']:
		ctx.violation('contract-in-repository-tests:' + v['contract'].split(':')[0].replace(' ', '_'), f'contract broken while the repository\'s own tests ran: {v["contract"]} :: {v["msg"]}', dict(contract=v['contract']))
	if n == 0:
		ctx.inconc('contracts were never evaluated while the repository tests ran')
