"""./check <Cxx> [--tier quick|thorough] [--seed N] [--replay path] [--shard name] [--jobs N]"""
import sys, os, argparse, importlib, json


def main():
	ap = argparse.ArgumentParser()
	ap.add_argument('pid')
	ap.add_argument('--tier', default=os.environ.get('VERIF_TIER') or 'quick', choices=['quick', 'thorough'])
	ap.add_argument('--seed', type=int, default=int(os.environ.get('VERIF_SEED') or 0))
	ap.add_argument('--replay')
	ap.add_argument('--shard')
	ap.add_argument('--jobs', type=int)
	a = ap.parse_args()
	from vf import core, deps
	if not deps.ensure():
		print(f'INCONCLUSIVE property={a.pid} reason=cannot install icontract/deal from the wheelhouse')
		return core.EXIT_INCONCLUSIVE
	pid = a.pid.upper()
	try:
		mod = importlib.import_module(f'vf.props.{pid.lower()}')
	except ModuleNotFoundError as e:
		print(f'no check for {pid}: {e}')
		return core.EXIT_USAGE
	tier, seed, shard = a.tier, a.seed, a.shard
	if a.replay:
		r = json.loads(open(a.replay).read())
		tier, seed, shard = r['tier'], r['seed'], r.get('shard')
		print(f'replaying {a.replay}: tier={tier} seed={seed} shard={shard}')
		print('recorded violation:', json.dumps(r['violation'])[:2000])
	try:
		return core.run_property(mod, pid, tier, seed, only_shard=shard, jobs=a.jobs)
	except Exception as e:   # a crash of the harness itself is never a verdict about the repository
		import traceback
		traceback.print_exc()
		print(f'INCONCLUSIVE property={pid} reason=harness crashed: {type(e).__name__}: {e}')
		return core.EXIT_INCONCLUSIVE


if __name__ == '__main__':
	sys.exit(main())
