"""Drivers for the gambit command line: in-process (fast) and as the real console script."""
import io
import os
import sys
import subprocess
import contextlib

GAMBIT_BIN = '/venv/bin/gambit'


def run_inproc(args, cwd=None, stdin_text=None):
	"""Run `gambit ARGS` in this process. Returns (exit_code, stdout, stderr, exception_repr|None)."""
	from gambit.cli import cli
	out, err = io.StringIO(), io.StringIO()
	code, exc = 0, None
	old_cwd = os.getcwd()
	old_stdin = sys.stdin
	try:
		if cwd:
			os.chdir(cwd)
		if stdin_text is not None:
			sys.stdin = io.StringIO(stdin_text)
		with contextlib.redirect_stdout(out), contextlib.redirect_stderr(err):
			try:
				cli.main([str(a) for a in args], prog_name='gambit', standalone_mode=True)
			except SystemExit as e:
				code = e.code if isinstance(e.code, int) else (0 if e.code is None else 1)
			except BaseException as e:  # uncaught exception = crash with traceback = non-zero exit for a user
				code, exc = 1, f'{type(e).__name__}: {e}'
	finally:
		os.chdir(old_cwd)
		sys.stdin = old_stdin
	return code, out.getvalue(), err.getvalue(), exc


def run_subproc(args, cwd=None, env=None, timeout=300, prefix=None):
	"""Run the real console script. Returns (exit_code, stdout, stderr)."""
	e = dict(os.environ)
	if env:
		e.update(env)
	cmd = (prefix or []) + [GAMBIT_BIN] + [str(a) for a in args]
	p = subprocess.run(cmd, cwd=cwd, env=e, capture_output=True, timeout=timeout)
	return p.returncode, p.stdout.decode('utf8', 'replace'), p.stderr.decode('utf8', 'replace')
