"""Idempotent installation of icontract/deal from the offline wheelhouse into /verif/.deps."""
import os, sys, subprocess, fcntl
from pathlib import Path

VERIF = Path(__file__).resolve().parent.parent
DEPS = VERIF / '.deps'
WHEELS = '/opt/veriftools/wheels'


def ensure(verbose=False):
	if str(DEPS) not in sys.path:
		sys.path.append(str(DEPS))
	if (DEPS / 'icontract').is_dir():
		return True
	DEPS.mkdir(exist_ok=True)
	with open(DEPS / '.lock', 'w') as lk:
		fcntl.flock(lk, fcntl.LOCK_EX)
		if (DEPS / 'icontract').is_dir():
			return True
		cmd = ['/venv/bin/pip', 'install', '--no-index', '--find-links', WHEELS, '--target', str(DEPS), '--quiet', 'icontract', 'deal']
		p = subprocess.run(cmd, capture_output=True, text=True, env={**os.environ, 'PIP_NO_INDEX': '1'})
		if verbose or p.returncode:
			sys.stderr.write(p.stdout + p.stderr)
		return p.returncode == 0


if __name__ == '__main__':
	ok = ensure(verbose=True)
	print('deps', 'ok' if ok else 'FAILED')
	sys.exit(0 if ok else 1)
