"""Anchor-reach monitor (sys.monitoring, Python 3.12): which anchored functions were entered, how
often, and which of their lines executed. A must-reach function with zero entries makes the run
inconclusive (the harness bypassed the code it claims to observe)."""

import sys
import importlib
import inspect

TOOL_ID = 4


def _resolve(spec):
	"""'gambit.kmers:KmerMatch.kmer_index' -> code object"""
	modname, qual = spec.split(':')
	obj = importlib.import_module(modname)
	for part in qual.split('.'):
		try:
			obj = inspect.getattr_static(obj, part)
		except AttributeError:
			obj = getattr(obj, part)
	for _ in range(10):
		if hasattr(obj, 'callback') and not hasattr(obj, '__code__'):
			obj = obj.callback          # click.Command
		elif isinstance(obj, (classmethod, staticmethod)):
			obj = obj.__func__
		elif isinstance(obj, property):
			obj = obj.fget
		elif hasattr(obj, '__wrapped__'):
			obj = obj.__wrapped__
		else:
			break
	return obj.__code__


class Monitor:
	def __init__(self, specs):
		self.specs = list(specs)
		self.codes = {}
		self.entries = {}
		self.lines = {}
		self.errors = {}
		m = sys.monitoring
		try:
			m.use_tool_id(TOOL_ID, 'verif-reach')
		except ValueError:
			pass
		for s in self.specs:
			try:
				code = _resolve(s)
			except Exception as e:  # anchor no longer exists -> reported, decided by the caller
				self.errors[s] = f'{type(e).__name__}: {e}'
				continue
			self.codes[code] = s
			self.entries[s] = 0
			self.lines[s] = set()
			m.set_local_events(TOOL_ID, code, m.events.PY_START | m.events.LINE)
		m.register_callback(TOOL_ID, m.events.PY_START, self._start)
		m.register_callback(TOOL_ID, m.events.LINE, self._line)

	def _start(self, code, offset):
		s = self.codes.get(code)
		if s is not None:
			self.entries[s] += 1

	def _line(self, code, line):
		s = self.codes.get(code)
		if s is not None:
			self.lines[s].add(line)
		return sys.monitoring.DISABLE

	def stop(self):
		m = sys.monitoring
		out = {}
		for code, s in self.codes.items():
			try:
				m.set_local_events(TOOL_ID, code, 0)
			except Exception:
				pass
			total = sorted({l for (_, _, l) in code.co_lines() if l is not None and l != code.co_firstlineno})
			hit = sorted(self.lines[s] & set(total))
			out[s] = dict(entries=self.entries[s], lines_hit=len(hit), lines_total=len(total),
			              missed=[l for l in total if l not in self.lines[s]])
		for s, e in self.errors.items():
			out[s] = dict(entries=0, unresolved=e)
		try:
			m.register_callback(TOOL_ID, m.events.PY_START, None)
			m.register_callback(TOOL_ID, m.events.LINE, None)
			m.free_tool_id(TOOL_ID)
		except Exception:
			pass
		return out


def start(specs):
	if not specs:
		return None
	return Monitor(specs)


def merge_reach(notes_reach_list):
	"""Merge per-shard reach dicts: sum entries, union missed -> intersection of missed."""
	out = {}
	for r in notes_reach_list:
		for s, d in r.items():
			o = out.setdefault(s, dict(entries=0, lines_total=d.get('lines_total', 0), missed=None))
			o['entries'] += d.get('entries', 0)
			if 'unresolved' in d:
				o['unresolved'] = d['unresolved']
				continue
			ms = set(d.get('missed', []))
			o['missed'] = ms if o['missed'] is None else (o['missed'] & ms)
	for s, o in out.items():
		if o.get('missed') is not None:
			o['missed'] = sorted(o['missed'])
			o['lines_hit'] = o['lines_total'] - len(o['missed'])
	return out
