"""Synthetic worlds: a plain taxonomy model + reference genomes + queries, written out as a GAMBIT
database directory (SQLite through the repository's ORM with a normal writable session, HDF5 through
dump_signatures - input construction only). Every expectation is computed from the plain model and the
oracles, never from gambit."""

import os
import json
import random
import shutil
from pathlib import Path

import numpy as np

from vf.oracles import taxonomy as TX
from vf.oracles import jaccard as J
from vf.oracles import sigdef as S
from vf.oracles.fasta import soft_mask

HOSTILE = ['plain', 'with, comma', 'dq "quoted"', "sq 'single'", ' lead trail ', 'line\nfeed', 'crlf\r\nname', 'tab\there', 'Ünïcödé ß', '日本語の名前',
           '😀 emoji 𝔘', '‮rtl‬ mark', 'semi;colon', 'back\\slash', 'x' * 120, 'long name ' * 40, 'cafe\u0301 nfd', '\u212b angstrom \ufb01', 'zero\u200bwidth', '=formula()', '+plus', '@at', '-minus', '#hash', 'a,b\n"c"', 'percent % s {0}']
CR_NAMES = ['bare\rcr', 'cr at end\r', '\rcr first']
# names used exactly as they are (no running number appended): text that looks like a number, a boolean or a missing value
EXACT = ['None', 'null', 'true', 'False', 'NaN', 'inf', '1e5', '0', '1.0', '-1', '007', ' ', 'N/A', '1,5', '""']
RANKS = ['genus', 'species', 'subspecies', None, 'strain']


class World:
	def __init__(self, k, prefix):
		self.k, self.prefix = k, prefix
		self.dtype = S.dtype_for(k)
		self.taxa = []        # TX.T with .name ; parallel dicts in self.tinfo
		self.tinfo = []       # dict(key, rank, ncbi_id, description)
		self.genomes = []     # dict(key, description, taxon, genbank_acc, refseq_acc, ncbi_id, sig(list), contigs|None, organism)
		self.queries = []     # dict(label, sig(list), contigs|None)
		self.extra = []       # dict(id, sig)
		self.id_attr = 'key'
		self.gset = dict(key='verif/world', version='1.0', name='world', description='synthetic', extra={'author': 'verif'})
		self.sigmeta = dict(id='verif/world-sigs', name='world sigs', version='1.0', description='synthetic signatures', extra={'author': 'verif', 'revision': {'num': 1}})
		self._dist_cache = {}

	# ---- distances (exact, from sets) -----------------------------------------------------------------
	def dist_sets(self, a, b):
		s, u = J.dist_su(a, b)
		bits = J.expected_bits(s, u)
		return float(np.uint32(bits).view('f4'))

	def dist(self, qi, gi):
		key = (qi, gi)
		if key not in self._dist_cache:
			self._dist_cache[key] = self.dist_sets(self.queries[qi]['sigset'], self.genomes[gi]['sigset'])
		return self._dist_cache[key]

	def finalize(self):
		for g in self.genomes:
			g['sigset'] = set(g['sig'])
		for q in self.queries:
			q['sigset'] = set(q['sig'])

	def genome_id(self, g, attr=None):
		return g[attr or self.id_attr]

	# ---- expectations -----------------------------------------------------------------------------------
	def db_order(self, sig_order=None):
		"""Order of db.genomes = order of the genomes' ids in the signature file."""
		return list(range(len(self.genomes))) if sig_order is None else list(sig_order)

	def expected_nonstrict(self, qi, order=None):
		order = self.db_order(order)
		ds = [self.dist(qi, gi) for gi in order]
		dmin = min(ds)
		closest_candidates = [gi for gi, d in zip(order, ds) if d == dmin]
		first = closest_candidates[0]   # reference order tie-break (C09)
		out = dict(dmin=dmin, closest_candidates=closest_candidates, closest_first=first)
		# per candidate expectations (C03 accepts any genome at minimum distance)
		per = {}
		for gi in closest_candidates:
			t = self.taxa[self.genomes[gi]['taxon']]
			pred = TX.matching(t, dmin)
			per[gi] = dict(pred=pred, next=TX.next_taxon(t, dmin), report=TX.reportable(pred))
		out['per'] = per
		return out

	def expected_strict(self, qi):
		matched = {}
		for gi, g in enumerate(self.genomes):
			m = TX.matching(self.taxa[g['taxon']], self.dist(qi, gi))
			if m is not None:
				matched.setdefault(m.i, []).append(gi)
		if not matched:
			return dict(pred=None, pred_key=None, success=True, matched=matched)
		cons, has = TX.strict_consensus([self.taxa[i] for i in matched])
		return dict(pred=cons, pred_key=None if cons is None else self.tinfo[cons.i]['key'], success=has, matched=matched)

	def closest_list(self, qi, n, order=None):
		order = self.db_order(order)
		ranked = sorted(range(len(order)), key=lambda p: (self.dist(qi, order[p]), p))
		return [order[p] for p in ranked[:n]]

	def describe(self):
		return dict(k=self.k, prefix=self.prefix, id_attr=self.id_attr,
		            taxa=[dict(i=t.i, parent=None if t.parent is None else t.parent.i, thr=t.thr, report=t.report, name=t.name) for t in self.taxa],
		            genomes=[dict(key=g['key'], taxon=g['taxon'], n=len(g['sig'])) for g in self.genomes],
		            queries=[dict(label=q['label'], n=len(q['sig'])) for q in self.queries])

	# ---- writing ---------------------------------------------------------------------------------------------
	def write_db(self, dirpath, sig_order=None, with_extra=True, id_attr=None, gdb_name='genomes.gdb', gs_name='signatures.gs',
	             drop_sig_of=None, id_attr_meta='same', sig_dtype=None, interleave_seed=0, second_genomeset=False):
		"""Write <dir>/<gdb_name> and <dir>/<gs_name>. sig_order: order of genome indices in the signature file."""
		from sqlalchemy import create_engine
		from sqlalchemy.orm import Session
		from gambit.db.models import Base, Genome, ReferenceGenomeSet, AnnotatedGenome, Taxon
		dirpath = Path(dirpath)
		dirpath.mkdir(parents=True, exist_ok=True)
		id_attr = id_attr or self.id_attr
		gdb = dirpath / gdb_name
		engine = create_engine(f'sqlite:///{gdb}')
		Base.metadata.create_all(engine)
		with Session(engine) as s:
			gs = ReferenceGenomeSet(id=2 if second_genomeset else 1, **self.gset)
			s.add(gs)
			torm = []
			for t, info in zip(self.taxa, self.tinfo):
				o = Taxon(id=t.i + 1, key=info['key'], name=t.name, rank=info['rank'], description=info.get('description'), distance_threshold=t.thr,
				          report=t.report, ncbi_id=info['ncbi_id'], genome_set=gs)
				torm.append(o)
			for t, o in zip(self.taxa, torm):
				if t.parent is not None:
					o.parent = torm[t.parent.i]
			s.add_all(torm)
			gos = []
			for j, g in enumerate(self.genomes):
				go = Genome(id=j + 1, key=g['key'], description=g['description'], ncbi_db=g.get('ncbi_db'), ncbi_id=g.get('ncbi_id'),
				            genbank_acc=g.get('genbank_acc'), refseq_acc=g.get('refseq_acc'))
				s.add(AnnotatedGenome(genome=go, genome_set=gs, taxon=torm[g['taxon']], organism=g.get('organism')))
				if second_genomeset:
					gos.append(go)
			if second_genomeset:
				# another genome set in the same file annotating the *same* genomes with its own taxa (API use only: the CLI wants exactly one set)
				gs2 = ReferenceGenomeSet(id=1, key='verif/other-set', version='9', name='other', description='second genome set')
				s.add(gs2)
				t2 = [Taxon(id=1000 + i, key=f'other/t{i}', name=f'Other {i}', distance_threshold=0.5, genome_set=gs2) for i in range(2)]
				t2[1].parent = t2[0]
				s.add_all(t2)
				for j, go in enumerate(gos):
					s.add(AnnotatedGenome(genome=go, genome_set=gs2, taxon=t2[j % 2], organism='other'))
			s.commit()
		engine.dispose()
		self.write_signatures(dirpath / gs_name, sig_order=sig_order, with_extra=with_extra, id_attr=id_attr, drop_sig_of=drop_sig_of,
		                      id_attr_meta=id_attr_meta, sig_dtype=sig_dtype, interleave_seed=interleave_seed)
		return dirpath

	def write_signatures(self, path, sig_order=None, with_extra=True, id_attr=None, drop_sig_of=None, id_attr_meta='same', sig_dtype=None, interleave_seed=0):
		from gambit.sigs.base import SignatureArray, AnnotatedSignatures, SignaturesMeta, dump_signatures
		from gambit.kmers import KmerSpec
		id_attr = id_attr or self.id_attr
		order = self.db_order(sig_order)
		entries = [(self.genomes[gi][id_attr], self.genomes[gi]['sig']) for gi in order if gi != drop_sig_of]
		if with_extra and self.extra:
			rng = random.Random(interleave_seed)
			for e in self.extra:
				eid = e['id'] if id_attr != 'ncbi_id' else e['int_id']
				entries.insert(rng.randint(0, len(entries)), (eid, e['sig']))
		self.last_file_ids = [e[0] for e in entries]
		dt = np.dtype(sig_dtype or self.dtype)
		ks = KmerSpec(self.k, self.prefix)
		sa = SignatureArray([np.array(sig, dtype=dt) for _, sig in entries], ks, dtype=dt)
		ids = [e[0] for e in entries]
		meta_attr = id_attr if id_attr_meta == 'same' else id_attr_meta
		meta = SignaturesMeta(id=self.sigmeta['id'], name=self.sigmeta['name'], version=self.sigmeta['version'], id_attr=meta_attr,
		                      description=self.sigmeta['description'], extra=self.sigmeta['extra'])
		if Path(path).exists():
			os.unlink(path)
		dump_signatures(str(path), AnnotatedSignatures(sa, ids, meta))
		return path

	def write_query_sigs(self, path, which=None, labels=None, k=None, prefix=None):
		from gambit.sigs.base import SignatureArray, AnnotatedSignatures, SignaturesMeta, dump_signatures
		from gambit.kmers import KmerSpec
		which = list(range(len(self.queries))) if which is None else which
		dt = np.dtype(S.dtype_for(k or self.k))
		ks = KmerSpec(k or self.k, prefix or self.prefix)
		sa = SignatureArray([np.array(self.queries[qi]['sig'], dtype=dt) for qi in which], ks, dtype=dt)
		ids = labels or [self.queries[qi]['label'] for qi in which]
		if Path(path).exists():
			os.unlink(path)
		dump_signatures(str(path), AnnotatedSignatures(sa, ids, SignaturesMeta(id='queries')))
		return path


# ---- generators ----------------------------------------------------------------------------------------------

def _f32(x):
	return float(np.float32(x))


def gen_taxonomy(rng, w, nt=None, conflict_bias=False, names='hostile', cr_names=False):
	nt = nt or rng.randint(2, 13)   # > 10 so that keys such as t1 / t10 / t11 (one a prefix of the other) occur
	# keys are specific to the world: an object leaking from another database processed earlier in the same process is then visibly foreign
	w.tag = getattr(w, 'tag', None) or f'{rng.randrange(10 ** 6):06d}'
	pool = list(HOSTILE) + (CR_NAMES if cr_names else [])
	for i in range(nt):
		parent = None if (i == 0 or rng.random() < 0.12) else w.taxa[rng.randrange(i)]
		nm = f'Taxon {i}' if names == 'plain' or rng.random() < 0.4 else (f'{rng.choice(pool)} {i}' if rng.random() < 0.9 else rng.choice(EXACT))
		w.taxa.append(TX.T(i, parent, None, rng.random() < 0.8, nm))
		w.tinfo.append(dict(key=f'verif/{w.tag}/t{i}', rank=rng.choice(RANKS), ncbi_id=rng.choice([None, 1000 + i, 1000 + i, 2 ** 31 + i, 2 ** 53 + 1 + i, 0]), description=rng.choice([None, 'desc', ''])))
	if conflict_bias and nt >= 4:
		w.taxa[0].parent = None
		w.taxa[1].parent, w.taxa[2].parent, w.taxa[3].parent = w.taxa[0], w.taxa[1], w.taxa[0]


def assign_thresholds(rng, w):
	"""Thresholds from the actual distance distribution: None, exactly an occurring distance, between, non-monotone."""
	ds = sorted({w.dist(qi, gi) for qi in range(len(w.queries)) for gi in range(len(w.genomes))})
	for t in w.taxa:
		c = rng.random()
		if c < 0.25 or not ds:
			t.thr = None
		elif c < 0.6:
			t.thr = rng.choice(ds)                      # exactly equal to an occurring distance
		elif c < 0.8:
			a = rng.choice(ds)
			t.thr = _f32(np.nextafter(np.float32(a), np.float32(rng.choice([0, 2]))))   # one ulp beside an occurring distance
		elif c < 0.9:
			# the decimal a curator would type for an occurring distance (0.2 for 0.20000000298...): a double that is usually NOT a
			# float32 value, a hair below or above the single-precision distance it is compared with
			t.thr = round(rng.choice(ds), rng.choice([1, 2, 3, 6]))
		elif c < 0.94:
			t.thr = rng.choice([1e-05, 1.5e-07, 0.30000000000000004, 1e-300, 2.5, 1e+16])     # values that print in exponent notation or with 17 digits
		else:
			t.thr = _f32(rng.random())
	w._dist_cache = dict(w._dist_cache)


def add_genome(w, rng, j, taxon, sig, contigs=None, names_pool=HOSTILE):
	desc = f'Genome {j}' if rng.random() < 0.5 else (f'{rng.choice(names_pool)} g{j}' if rng.random() < 0.9 or names_pool == ['plain'] else rng.choice(EXACT + ['']))
	w.genomes.append(dict(key=f'verif/{getattr(w, "tag", "0")}/g{j}', description=desc, taxon=taxon, genbank_acc=f'GCA_{j:06d}.1', refseq_acc=f'GCF_{j:06d}.1',
	                      ncbi_db='assembly', ncbi_id=5000 + j * 7, sig=sorted(sig), contigs=contigs, organism=f'Org {j}'))


def designed_world(rng, workdir=None, conflict_bias=False, nq=None, ng=None, k=None, prefix=None, cr_names=False, names='hostile'):
	"""Signatures are integer sets built for structured distances (incl. ties and identical references)."""
	k = k or rng.choice([5, 6, 7, 8, 9])
	prefix = prefix or rng.choice(['AT', 'ACG', 'GATC', 'TA', 'CCG'])
	w = World(k, prefix)
	gen_taxonomy(rng, w, conflict_bias=conflict_bias, cr_names=cr_names, names=names)
	nt = len(w.taxa)
	ng = ng or rng.randint(1, 12)
	nq = nq or rng.randint(1, 6)
	top = min(4 ** k, 60000)
	m = rng.choice([8, 16, 24])
	# query j owns block [j*m, (j+1)*m); genome i owns block starting at B + i*bsz
	B = nq * m
	bsz = max((top - B) // (ng + 3), 1)
	pool_names = HOSTILE + (CR_NAMES if cr_names else [])
	for i in range(ng):
		if i and rng.random() < 0.2:
			src = rng.choice(w.genomes)
			sig = list(src['sig'])                  # identical reference genome (ties)
		else:
			sig = set()
			for j in range(nq):
				a = rng.choice([0, 0, 1, m // 4, m // 2, m - 1, m])
				sig |= set(range(j * m, j * m + a))
			b = rng.randint(0, min(bsz, 12))
			sig |= set(range(B + i * bsz, B + i * bsz + b))
			if not sig and rng.random() < 0.7:
				sig = {B + i * bsz}
		add_genome(w, rng, i, rng.randrange(nt), sig, names_pool=pool_names)
	labels = set()
	for j in range(nq):
		c = rng.random()
		if c < 0.1:
			sig = []                                  # empty-signature query
		elif c < 0.2 and w.genomes:
			sig = list(rng.choice(w.genomes)['sig'])   # identical to a reference
		else:
			sig = list(range(j * m, (j + 1) * m))
		lab = f'query{j}' if rng.random() < 0.5 else f'{rng.choice(pool_names)} q{j}'
		while lab in labels:
			lab += 'x'
		labels.add(lab)
		w.queries.append(dict(label=lab, sig=sorted(sig), contigs=None))
	for e in range(rng.randint(0, 5)):
		w.extra.append(dict(id=f'unrelated/{e}', int_id=900000 + e, sig=sorted(rng.sample(range(top), rng.randint(0, 10)))))
	w.finalize()
	assign_thresholds(rng, w)
	return w


def _mutate(rng, seq, rate):
	b = bytearray(seq)
	n = int(len(b) * rate)
	for p in rng.sample(range(len(b)), min(n, len(b))):
		b[p] = rng.choice(b'ACGT')
	return bytes(b)


def sequence_world(rng, k=None, prefix=None, ng=None, nq=None, seqlen=None, cr_names=False, names='hostile'):
	"""Reference genomes are sequences derived by mutating ancestral sequences along the tree; signatures by the oracle."""
	k = k or rng.choice([5, 6, 7, 8])
	prefix = prefix or rng.choice(['AT', 'TA', 'ACG', 'GAT'])
	w = World(k, prefix)
	gen_taxonomy(rng, w, nt=rng.randint(2, 8), cr_names=cr_names, names=names)
	L = seqlen or rng.choice([1500, 3000, 6000])
	tseq = {}
	for t in w.taxa:
		if t.parent is None:
			tseq[t.i] = bytes(rng.choice(b'ACGT') for _ in range(L))
		else:
			tseq[t.i] = _mutate(rng, tseq[t.parent.i], rng.choice([0.02, 0.05, 0.1]))
	ng = ng or rng.randint(2, 10)
	P = prefix.encode()
	pool_names = HOSTILE + (CR_NAMES if cr_names else [])
	for i in range(ng):
		if i and rng.random() < 0.2:
			src = rng.choice(w.genomes)
			contigs, ti = list(src['contigs']), src['taxon']        # identical genome under a different key
		else:
			ti = rng.randrange(len(w.taxa))
			s = _mutate(rng, tseq[ti], rng.choice([0.0, 0.01, 0.03]))
			cuts = sorted(rng.sample(range(1, len(s)), rng.choice([0, 1, 2])))
			contigs = [soft_mask(s[a:b]) for a, b in zip([0] + cuts, cuts + [len(s)])]
		add_genome(w, rng, i, ti, S.signature(k, P, contigs), contigs=contigs, names_pool=pool_names)
	nq = nq or rng.randint(1, 6)
	labels = set()
	for j in range(nq):
		c = rng.random()
		if c < 0.1:
			contigs = [b'C' * 300 + b'G' * 50]                        # no prefix on either strand for AT/TA-like prefixes -> maybe empty signature
		elif c < 0.3:
			contigs = [soft_mask(bytes(rng.choice(b'ACGT') for _ in range(L)))]   # unrelated
		elif c < 0.45:
			contigs = list(rng.choice(w.genomes)['contigs'])           # identical to a reference
		else:
			g = rng.choice(w.genomes)
			s = _mutate(rng, b''.join(g['contigs']), rng.choice([0.005, 0.02, 0.08, 0.2]))
			cuts = sorted(rng.sample(range(1, len(s)), rng.choice([0, 1, 3])))
			contigs = [soft_mask(s[a:b]) for a, b in zip([0] + cuts, cuts + [len(s)])]
		lab = f'sample_{j}'
		w.queries.append(dict(label=lab, sig=S.signature(k, P, contigs), contigs=contigs))
	for e in range(rng.randint(0, 4)):
		w.extra.append(dict(id=f'unrelated/{e}', int_id=900000 + e, sig=sorted(rng.sample(range(4 ** k), rng.randint(0, 30)))))
	w.finalize()
	assign_thresholds(rng, w)
	return w


# ---- running queries ------------------------------------------------------------------------------------------

def parse_archive(text):
	"""Archive JSON -> list of dict per item with keys (plain values)."""
	data = json.loads(text)
	out = []
	for it in data['items']:
		cr = it['classifier_result']

		def tk(x):
			return None if x is None else x['key']

		def gm(m):
			return None if m is None else dict(genome=m['genome']['key'], distance=m['distance'], matched=tk(m['matched_taxon']))
		out.append(dict(label=it['input']['label'], predicted=tk(cr['predicted_taxon']), success=cr['success'], error=cr['error'], warnings=cr['warnings'],
		                primary=gm(cr['primary_match']), closest=gm(cr['closest_match']), next=tk(cr['next_taxon']), report=tk(it['report_taxon']),
		                closest_genomes=[gm(m) for m in it['closest_genomes']]))
	return out


def run_query_archive(dbdir, w, strict=False, sigfile=None, extra_args=()):
	from vf import clidrv
	dbdir = Path(dbdir)
	sigfile = sigfile or w.write_query_sigs(dbdir.parent / (dbdir.name + '_queries.gs'))
	out = dbdir.parent / (dbdir.name + '_out.json')
	args = ['-d', dbdir, 'query', '-f', 'archive', '-o', out, '--no-progress', '-s', sigfile] + (['--strict'] if strict else []) + list(extra_args)
	code, so, se, exc = clidrv.run_inproc(args)
	if code != 0:
		return None
	return parse_archive(out.read_text())
