"""MANIFEST.setup_cmd: build the framework from files on disk only (offline)."""
import sys
from vf import deps


def main():
	ok = deps.ensure(verbose=True)
	print('deps:', 'ok' if ok else 'FAILED')
	try:
		from vf import native
		native.ensure_all(verbose=True)
	except ImportError:
		pass
	return 0 if ok else 1


if __name__ == '__main__':
	sys.exit(main())
