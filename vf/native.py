"""Sanitizer / plain overlays of gambit's native modules, built from the working tree's *generated C*
(there is no Cython in the sandbox, so .pyx cannot be re-translated; see DESIGN.md 2.3).

An overlay is a directory containing a package `gambit` whose entries are symlinks into
<repo>/src/gambit (so current Python sources are used) except `_cython`, which holds freshly
compiled extension modules."""

import os
import sys
import json
import fcntl
import hashlib
import shutil
import subprocess
import sysconfig
from pathlib import Path
from concurrent.futures import ThreadPoolExecutor

VERIF = Path(__file__).resolve().parent.parent
CACHE = VERIF / '.native'
MODS = ['kmers', 'metric', 'threads']
EXT = sysconfig.get_config_var('EXT_SUFFIX') or '.cpython-312-x86_64-linux-gnu.so'
PYINC = sysconfig.get_paths()['include']

FLAVORS = {
	'plain': ['-O2'],
	'asan': ['-O1', '-g', '-fno-omit-frame-pointer', '-fsanitize=address,undefined', '-fno-sanitize-recover=undefined'],
	'tsan': ['-O1', '-g', '-fno-omit-frame-pointer', '-fsanitize=thread'],
}

# sha256 of the native sources at the pinned snapshot (e94038c): used to tell "generated C is stale"
PINS_FILE = Path(__file__).with_name('native_pins.json')


def _sha(p: Path) -> str:
	return hashlib.sha256(p.read_bytes()).hexdigest()


def source_state(repo: Path):
	cy = repo / 'src' / 'gambit' / '_cython'
	cur = {p.name: _sha(p) for p in sorted(cy.iterdir()) if p.suffix in ('.c', '.pyx', '.pxd')}
	pins = json.loads(PINS_FILE.read_text()) if PINS_FILE.exists() else {}
	c_changed = [n for n in cur if n.endswith('.c') and pins.get(n) != cur[n]]
	pyx_changed = [n for n in cur if not n.endswith('.c') and pins.get(n) != cur[n]]
	missing_c = [m + '.c' for m in MODS if m + '.c' not in cur]
	stale = []
	for n in pyx_changed:
		stem = n.split('.')[0]
		deps = MODS if n == 'types.pxd' else [stem]
		for d in deps:
			if d + '.c' not in c_changed:
				stale.append(d + '.c')
	return dict(current=cur, c_changed=c_changed, pyx_changed=pyx_changed, missing_c=missing_c, stale_c=sorted(set(stale)))


def _key(repo: Path, flavor: str) -> str:
	cy = repo / 'src' / 'gambit' / '_cython'
	h = hashlib.sha256()
	for m in MODS:
		h.update((cy / (m + '.c')).read_bytes())
	h.update(' '.join(FLAVORS[flavor]).encode())
	h.update(str(repo).encode())
	return f'{flavor}-{h.hexdigest()[:16]}'


def compile_module(cfile: Path, out: Path, flavor: str):
	cmd = ['gcc', '-shared', '-fPIC', '-fopenmp', '-w', *FLAVORS[flavor], f'-I{PYINC}', str(cfile), '-o', str(out)]
	p = subprocess.run(cmd, capture_output=True, text=True)
	if p.returncode:
		raise RuntimeError(f'compile failed: {" ".join(cmd)}\n{p.stderr[-2000:]}')


def build(flavor: str, repo: Path = None, verbose=False) -> Path:
	"""Return the overlay root (to be put first on PYTHONPATH). Cached by content hash of the .c files."""
	from vf import core
	repo = Path(repo or core.REPO)
	CACHE.mkdir(exist_ok=True)
	key = _key(repo, flavor)
	root = CACHE / key
	done = root / '.done'
	with open(CACHE / f'.lock-{flavor}', 'w') as lk:
		fcntl.flock(lk, fcntl.LOCK_EX)
		if not done.exists():
			if root.exists():
				shutil.rmtree(root)
			# drop older builds of this flavor for this repo path (disk discipline)
			for old in CACHE.glob(f'{flavor}-*'):
				if old != root and (old / '.repo').exists() and (old / '.repo').read_text() == str(repo):
					shutil.rmtree(old, ignore_errors=True)
			pkg = root / 'gambit'
			(pkg / '_cython').mkdir(parents=True)
			(root / '.repo').write_text(str(repo))
			src = repo / 'src' / 'gambit'
			for e in src.iterdir():
				if e.name in ('_cython', '__pycache__'):
					continue
				os.symlink(e, pkg / e.name)
			for e in (src / '_cython').iterdir():
				if e.suffix in ('.py', '.pxd', '.pyx'):
					os.symlink(e, pkg / '_cython' / e.name)
			if verbose:
				print(f'native: building {flavor} overlay {root}', flush=True)
			with ThreadPoolExecutor(3) as ex:
				list(ex.map(lambda m: compile_module(src / '_cython' / (m + '.c'), pkg / '_cython' / (m + EXT), flavor), MODS))
			done.write_text('ok')
	return root


def sanitizer_env(flavor: str, overlay: Path, logbase: str = None):
	"""Environment additions for a worker that must load the overlay under the sanitizer runtime."""
	env = {'VERIF_OVERLAY': str(overlay), 'PYTHONMALLOC': 'malloc'}
	if flavor == 'asan':
		lib = subprocess.run(['gcc', '-print-file-name=libasan.so'], capture_output=True, text=True).stdout.strip()
		env['LD_PRELOAD'] = lib
		env['ASAN_OPTIONS'] = 'detect_leaks=0:halt_on_error=1:abort_on_error=1:allocator_may_return_null=1:detect_stack_use_after_return=0'
		env['UBSAN_OPTIONS'] = 'halt_on_error=1:abort_on_error=1:print_stacktrace=1'
	elif flavor == 'tsan':
		lib = subprocess.run(['gcc', '-print-file-name=libtsan.so'], capture_output=True, text=True).stdout.strip()
		env['LD_PRELOAD'] = lib
		opts = 'halt_on_error=0:report_signal_unsafe=0:history_size=4:second_deadlock_stack=0:exitcode=0'
		if logbase:
			opts += f':log_path={logbase}'
		env['TSAN_OPTIONS'] = opts
	return env


SAN_MARKERS = ('ERROR: AddressSanitizer', 'runtime error:', 'ERROR: LeakSanitizer', 'AddressSanitizer:DEADLYSIGNAL', 'ERROR: UndefinedBehaviorSanitizer')


def scan_sanitizer_log(text: str):
	"""Return list of (kind, first lines) of ASan/UBSan reports found in a worker log."""
	out = []
	lines = text.splitlines()
	for i, l in enumerate(lines):
		if any(m in l for m in SAN_MARKERS):
			kind = 'ubsan' if 'runtime error' in l or 'Undefined' in l else 'asan'
			out.append((kind, '\n'.join(lines[i:i + 14])))
	return out


def ensure_all(verbose=False):
	from vf import core
	st = source_state(core.REPO)
	if st['missing_c']:
		print('native: generated C missing:', st['missing_c'])
		return False
	for fl in ('asan', 'tsan'):
		try:
			build(fl, verbose=verbose)
		except Exception as e:
			print(f'native: {fl} overlay failed: {e}')
			return False
	return True


if __name__ == '__main__':
	if len(sys.argv) > 1 and sys.argv[1] == 'pin':
		cy = Path('/repo/src/gambit/_cython')
		PINS_FILE.write_text(json.dumps({p.name: _sha(p) for p in sorted(cy.iterdir()) if p.suffix in ('.c', '.pyx', '.pxd')}, indent=1) + '\n')
		print('pinned', PINS_FILE)
	else:
		print(ensure_all(verbose=True))
