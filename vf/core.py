"""Core of the runtime-monitoring harness: tiers/seeds, per-shard recorder, worker pool built on
subprocess.run (never multiprocessing.Pool), verdicts, known-finding classifier, evidence writer."""

import os
import sys
import json
import time
import hashlib
import shutil
import struct
import subprocess
import tempfile
import traceback
from collections import Counter
from concurrent.futures import ThreadPoolExecutor
from pathlib import Path

VERIF = Path(__file__).resolve().parent.parent
REPO = Path(os.environ.get('VERIF_REPO', '/repo'))
PY = '/venv/bin/python'
WORK = VERIF / '.work'
NCPU = os.cpu_count() or 4
EVDIR = Path(os.environ.get('VERIF_EVIDENCE_DIR') or (VERIF / 'evidence'))

EXIT_OK, EXIT_VIOLATION, EXIT_INCONCLUSIVE, EXIT_USAGE = 0, 1, 2, 3


def h64(obj) -> int:
	"""Canonical 64-bit hash of a JSON-able / bytes / str case description."""
	if isinstance(obj, bytes):
		b = obj
	elif isinstance(obj, str):
		b = obj.encode('utf8', 'surrogatepass')
	else:
		b = json.dumps(obj, sort_keys=True, default=_json_default).encode('utf8', 'surrogatepass')
	return struct.unpack('<Q', hashlib.blake2b(b, digest_size=8).digest())[0]


def _json_default(o):
	import numpy as np
	if isinstance(o, np.ndarray):
		return {'__nd__': o.dtype.str, 'v': o.tolist()}
	if isinstance(o, np.generic):
		return o.item()
	if isinstance(o, (bytes, bytearray)):
		return {'__b__': bytes(o).hex()}
	if isinstance(o, (set, frozenset)):
		return sorted(o, key=repr)
	if isinstance(o, Path):
		return str(o)
	if isinstance(o, slice):
		return ['slice', o.start, o.stop, o.step]
	return repr(o)


def jdump(obj, **kw):
	return json.dumps(obj, default=_json_default, **kw)


class Ctx:
	"""Recorder handed to a shard. Everything in it is merged by the parent."""

	MAX_VIOL_PER_MECH = 5
	MAX_SAMPLES = 4

	def __init__(self, pid, tier, seed, shard):
		self.pid, self.tier, self.seed, self.shard = pid, tier, seed, shard
		self.evals = 0
		self.hashes = set()
		self.counters = Counter()
		self.samples = []
		self.violations = []
		self._viol_per_mech = Counter()
		self.nviol = 0
		self.notes = {}       # key -> json-able, merged by dict.update / list-extend / set-union
		self.sets = {}        # key -> set of json-able scalars (merged by union)
		self.inconclusive = []
		self.workdir = None
		self.t0 = time.time()

	# --- recording -------------------------------------------------------------------------
	def case(self, key=None, nontrivial=True, sample=None, n=1):
		"""Record one oracle evaluation. ``key`` identifies the case (hashed) when non-trivial."""
		self.evals += n
		if nontrivial and key is not None:
			self.hashes.add(key if isinstance(key, int) else h64(key))
		if sample is not None and len(self.samples) < self.MAX_SAMPLES:
			self.samples.append(sample)

	def count(self, name, n=1):
		self.counters[name] += n

	def seen(self, setname, value):
		self.sets.setdefault(setname, set()).add(value)

	def violation(self, mech, msg, witness=None):
		"""Record a refuting observation. ``mech`` is a mechanism key (never a hash / random value)."""
		self.nviol += 1
		self._viol_per_mech[mech] += 1
		if self._viol_per_mech[mech] <= self.MAX_VIOL_PER_MECH:
			self.violations.append(dict(mech=mech, msg=msg, witness=witness, shard=self.shard.get('name')))

	def inconc(self, reason):
		self.inconclusive.append(reason)

	def elapsed(self):
		return time.time() - self.t0

	# --- serialisation ---------------------------------------------------------------------
	def dump(self, path):
		import numpy as np
		hp = str(path) + '.hashes'
		np.array(sorted(self.hashes), dtype='u8').tofile(hp)
		out = dict(
			evals=self.evals, counters=dict(self.counters), samples=self.samples,
			violations=self.violations, nviol=self.nviol, viol_per_mech=dict(self._viol_per_mech),
			notes=self.notes, sets={k: sorted(v, key=repr) for k, v in self.sets.items()},
			inconclusive=self.inconclusive, wall=self.elapsed(), shard=self.shard.get('name'),
		)
		with open(path, 'w') as f:
			f.write(jdump(out))


def worker_env(extra=None):
	env = dict(os.environ)
	pp = [str(VERIF), str(VERIF / '.deps')]
	if str(REPO) != '/repo':
		pp.insert(0, str(REPO / 'src'))  # scratch copy of the repository (self-test of the monitors)
	if env.get('PYTHONPATH'):
		pp.append(env['PYTHONPATH'])
	env['PYTHONPATH'] = ':'.join(pp)
	env.setdefault('VERIF_HASHSEED', '0')
	env['PYTHONHASHSEED'] = env['VERIF_HASHSEED']
	env['PYTHONDONTWRITEBYTECODE'] = '1'
	env.setdefault('OMP_NUM_THREADS', '2')
	env.setdefault('OMP_WAIT_POLICY', 'passive')
	env.setdefault('HDF5_USE_FILE_LOCKING', 'FALSE')
	if extra:
		env.update({k: str(v) for k, v in extra.items()})
	if env.get('VERIF_OVERLAY'):
		env['PYTHONPATH'] = env['VERIF_OVERLAY'] + ':' + env['PYTHONPATH']
	return env


def mkwork(prefix):
	WORK.mkdir(exist_ok=True)
	return Path(tempfile.mkdtemp(prefix=prefix + '-', dir=WORK))


def _run_one(pid, tier, seed, shard, tmpdir, timeout):
	"""Run one shard in a fresh subprocess with a watchdog. Returns (result dict | None, reason)."""
	idx = shard['_i']
	spec = tmpdir / f'shard{idx}.json'
	out = tmpdir / f'out{idx}.json'
	spec.write_text(jdump(dict(pid=pid, tier=tier, seed=seed, shard=shard, workdir=str(tmpdir / f'w{idx}'))))
	extra_env = dict(shard.get('env') or {})
	san = shard.get('sanitizer')
	if san:
		from vf import native
		st = native.source_state(REPO)
		if st['stale_c'] or st['missing_c']:
			return dict(evals=0, counters={}, samples=[], violations=[], nviol=0, viol_per_mech={}, inconclusive=[], sets={},
			            notes={'sanitizer_stage': {shard.get('name'): f'INCONCLUSIVE stage=sanitizer reason=stale-generated-C {st["stale_c"] or st["missing_c"]}'}},
			            hashes=__import__('numpy').zeros(0, 'u8'), rc=0, wall=0.0, log_tail=''), None, ''
		try:
			overlay = native.build(san, REPO)
		except Exception as e:
			return None, f'sanitizer overlay {san} could not be built: {e}', ''
		extra_env.update(native.sanitizer_env(san, overlay, str(tmpdir / f'san{idx}')))
	# string hashing (iteration order of sets / dicts of str) differs from shard to shard and from seed to seed, reproducibly: an output
	# that is only right under one iteration order must not pass because the harness pinned that order
	extra_env.setdefault('VERIF_HASHSEED', str(h64(f'{seed}/{shard.get("name")}') % 4294967295))
	env = worker_env(extra_env)
	cmd = shard.get('argv_prefix', []) + [PY, '-m', 'vf.worker', str(spec), str(out)]
	log = tmpdir / f'log{idx}.txt'
	t0 = time.time()
	try:
		with open(log, 'wb') as lf:
			p = subprocess.run(cmd, env=env, stdout=lf, stderr=subprocess.STDOUT, timeout=timeout, cwd=str(VERIF))
		rc = p.returncode
	except subprocess.TimeoutExpired:
		return None, f'watchdog: shard {shard.get("name")} exceeded {timeout}s', ''
	tail = ''
	try:
		tail = log.read_bytes()[-3000:].decode('utf8', 'replace')
	except OSError:
		pass
	san_reports = []
	if san in ('asan',):
		from vf import native
		try:
			san_reports = native.scan_sanitizer_log(log.read_bytes().decode('utf8', 'replace'))
		except OSError:
			pass
	if not out.exists():
		if san_reports:
			viol = [dict(mech=f'sanitizer-{k}', msg=txt[:1500], witness=dict(shard=shard.get('name'), log_tail=tail[-1500:]), shard=shard.get('name')) for k, txt in san_reports[:3]]
			return dict(evals=0, counters={'sanitizer_reports': len(san_reports)}, samples=[], violations=viol, nviol=len(viol),
			            viol_per_mech={v['mech']: 1 for v in viol}, inconclusive=[], sets={}, notes={},
			            hashes=__import__('numpy').zeros(0, 'u8'), rc=0, wall=time.time() - t0, log_tail=tail), None, tail
		return None, f'shard {shard.get("name")} died rc={rc} without a result', tail
	import numpy as np
	res = json.loads(out.read_text())
	res['hashes'] = np.fromfile(str(out) + '.hashes', dtype='u8')
	res['rc'] = rc
	for k, txt in san_reports[:3]:
		res['violations'].append(dict(mech=f'sanitizer-{k}', msg=txt[:1500], witness=dict(shard=shard.get('name')), shard=shard.get('name')))
		res['nviol'] += 1
		res['viol_per_mech'][f'sanitizer-{k}'] = res['viol_per_mech'].get(f'sanitizer-{k}', 0) + 1
	if san == 'tsan':
		import glob
		res['tsan_logs'] = [Path(f).read_text(errors='replace') for f in glob.glob(str(tmpdir / f'san{idx}') + '*')]
	res['wall_total'] = time.time() - t0
	res['log_tail'] = tail
	return res, None, tail


def load_known_findings():
	"""Parse KNOWN_FINDINGS.txt -> {pid: {key: text}} (only 'finding:' lines suppress)."""
	out = {}
	p = VERIF / 'KNOWN_FINDINGS.txt'
	if not p.exists():
		return out
	for line in p.read_text().splitlines():
		line = line.strip()
		if not line.startswith('finding:'):
			continue
		toks = line[len('finding:'):].split()
		kv = dict(t.split('=', 1) for t in toks if '=' in t and t.split('=', 1)[0] in ('property', 'key'))
		rest = ' '.join(t for t in toks if not (t.startswith('property=') or t.startswith('key=')))
		if 'property' in kv and 'key' in kv:
			out.setdefault(kv['property'], {})[kv['key']] = rest
	return out


def run_property(mod, pid, tier, seed, only_shard=None, jobs=None):
	"""Drive all shards of a property, merge, classify, write evidence, print verdict lines."""
	import numpy as np
	t0 = time.time()
	tmpdir = mkwork(pid)
	inconclusive = []
	merged = dict(evals=0, counters=Counter(), samples=[], violations=[], nviol=0, viol_per_mech=Counter(),
	              notes={}, sets={}, shards=[], hashes=[])
	try:
		pre = getattr(mod, 'prepare', None)
		if pre is not None:
			pre(tier, seed, tmpdir)
		shards = mod.shards(tier, seed)
		for i, s in enumerate(shards):
			s['_i'] = i
		if only_shard is not None:
			shards = [s for s in shards if s.get('name') == only_shard or s['_i'] == only_shard]
		timeout = getattr(mod, 'SHARD_TIMEOUT', {}).get(tier, 420 if tier == 'quick' else 5400)
		jobs = jobs or getattr(mod, 'JOBS', {}).get(tier, NCPU)
		with ThreadPoolExecutor(max_workers=jobs) as ex:
			futs = [ex.submit(_run_one, pid, tier, seed, s, tmpdir, s.get('timeout', timeout)) for s in shards]
			for s, fut in zip(shards, futs):
				res, reason, tail = fut.result()
				if res is None:
					inconclusive.append(reason)
					merged['shards'].append(dict(name=s.get('name'), status='no-result', reason=reason, log_tail=tail[-800:]))
					continue
				merged['evals'] += res['evals']
				merged['counters'].update(res['counters'])
				for smp in res['samples']:
					if len(merged['samples']) < 8:
						merged['samples'].append(smp)
				merged['violations'].extend(res['violations'])
				merged['nviol'] += res['nviol']
				merged['viol_per_mech'].update(res['viol_per_mech'])
				for k, v in res['notes'].items():
					if k == 'reach':
						merged.setdefault('reach_list', []).append(v)
					else:
						_merge_note(merged['notes'], k, v)
				for k, v in res['sets'].items():
					merged['sets'].setdefault(k, set()).update(_hashable(x) for x in v)
				merged['hashes'].append(res['hashes'])
				if res.get('tsan_logs'):
					merged.setdefault('tsan_logs', []).extend(res['tsan_logs'])
				inconclusive.extend(res['inconclusive'])
				if res['rc'] != 0:
					inconclusive.append(f'shard {s.get("name")} exited rc={res["rc"]}: {res["log_tail"][-400:]}')
				merged['shards'].append(dict(name=s.get('name'), status='ok', evals=res['evals'], wall_s=round(res['wall'], 2)))
				if s.get('sanitizer'):
					sr = merged.setdefault('sanitizer_runs', {}).setdefault(s['sanitizer'], dict(shards=0, oracle_evaluations=0, reports=0))
					sr['shards'] += 1
					sr['oracle_evaluations'] += res['evals']
					sr['reports'] += sum(1 for v in res['violations'] if str(v.get('mech', '')).startswith('sanitizer-'))
		allh = np.unique(np.concatenate(merged['hashes'])) if merged['hashes'] else np.zeros(0, 'u8')
		merged['distinct'] = int(len(allh))
		if merged.get('reach_list'):
			from vf import reach
			rm = reach.merge_reach(merged['reach_list'])
			merged['notes']['reach'] = rm
			for spec in getattr(mod, 'MUST_REACH', getattr(mod, 'REACH', [])):
				if rm.get(spec, {}).get('entries', 0) == 0:
					inconclusive.append(f'anchored function never entered: {spec} {rm.get(spec, {}).get("unresolved", "")}')
		fin = getattr(mod, 'finalize', None)
		extra = {}
		if fin is not None:
			extra = fin(merged, tier, seed, inconclusive) or {}
	finally:
		shutil.rmtree(tmpdir, ignore_errors=True)

	# ---- classify violations ------------------------------------------------------------------
	known = load_known_findings().get(pid, {})
	unknown = [v for v in merged['violations'] if v['mech'] not in known]
	known_hit = {}
	for v in merged['violations']:
		if v['mech'] in known:
			known_hit.setdefault(v['mech'], v)
	n_unknown = sum(n for m, n in merged['viol_per_mech'].items() if m not in known)

	if merged['evals'] == 0:
		inconclusive.append('no oracle evaluations at all')

	# ---- evidence -----------------------------------------------------------------------------
	level = getattr(mod, 'LEVEL', 'exploration')
	cov = dict(
		evaluations=int(merged['evals']),
		distinct_nontrivial=int(merged['distinct']),
		rule=getattr(mod, 'RULE', ''),
		samples=merged['samples'] or ['<none>'],
		exhaustive=bool(extra.pop('exhaustive', False)) if isinstance(extra, dict) else False,
		counters={k: int(v) for k, v in sorted(merged['counters'].items())},
		observed_sets={k: sorted(v, key=repr)[:200] for k, v in merged['sets'].items()},
		observed_set_sizes={k: len(v) for k, v in merged['sets'].items()},
		notes=merged['notes'],
		shards=merged['shards'],
		inconclusive=inconclusive,
		known_findings_seen=sorted(known_hit),
		sanitizer_runs=merged.get('sanitizer_runs', {}),
		violations_by_mechanism={k: int(v) for k, v in merged['viol_per_mech'].items()},
		verdict=('violated' if n_unknown else ('inconclusive' if inconclusive else 'held-on-observed')),
	)
	if isinstance(extra, dict):
		cov.update(extra)
	ev = dict(
		property_id=pid, tier=tier, seed=int(seed), level=level, coverage=cov,
		assumptions=list(getattr(mod, 'ASSUMPTIONS', [])),
		wall_s=round(time.time() - t0, 2), violations=int(n_unknown),
	)
	EVDIR.mkdir(exist_ok=True, parents=True)
	(EVDIR / f'{pid}.json').write_text(jdump(ev, indent=1) + '\n')

	# ---- verdict lines ------------------------------------------------------------------------
	for key, v in sorted(known_hit.items()):
		print(f'KNOWN-FINDING: property={pid} key={key} {known[key]} [{merged["viol_per_mech"][key]} observations]')
	rc = EXIT_OK
	if unknown or n_unknown:
		rdir = EVDIR.parent / 'replays' / pid
		rdir.mkdir(parents=True, exist_ok=True)
		seen_mech = set()
		for i, v in enumerate(unknown):
			if v['mech'] in seen_mech:
				continue
			seen_mech.add(v['mech'])
			import re
			rp = rdir / (re.sub(r'[^A-Za-z0-9._-]+', '_', f'{tier}-seed{seed}-{v["mech"]}')[:150] + '.json')
			rp.write_text(jdump(dict(property=pid, tier=tier, seed=seed, shard=v.get('shard'), violation=v), indent=1))
			print(f'VIOLATION property={pid} replay={rp} mech={v["mech"]} :: {str(v["msg"])[:300]}')
		rc = EXIT_VIOLATION
	elif inconclusive:
		for r in inconclusive[:10]:
			print(f'INCONCLUSIVE property={pid} reason={str(r)[:500]}')
		rc = EXIT_INCONCLUSIVE
	print(f'{pid} tier={tier} seed={seed} evaluations={merged["evals"]} distinct_nontrivial={merged["distinct"]} '
	      f'violations={n_unknown} known={len(known_hit)} wall={ev["wall_s"]}s verdict={cov["verdict"]}')
	return rc


def _hashable(x):
	return tuple(_hashable(y) for y in x) if isinstance(x, list) else x


def _merge_note(dst, k, v):
	if k not in dst:
		dst[k] = v
	elif isinstance(v, dict) and isinstance(dst[k], dict):
		for kk, vv in v.items():
			_merge_note(dst[k], kk, vv)
	elif isinstance(v, list) and isinstance(dst[k], list):
		dst[k] = (dst[k] + v)[:50]
	elif isinstance(v, (int, float)) and isinstance(dst[k], (int, float)) and not isinstance(v, bool):
		dst[k] = dst[k] + v
	else:
		dst[k] = v
