"""C15 - the genomic distance behaves as a metric on signatures.

Monitor: set-algebra oracle on the inputs for range, identity, disjointness, bit-symmetry, triangle inequality
(slack 2^-22, sum in double), width invariance and strict decrease when a new common k-mer is added."""

import itertools
import sys
import random

import numpy as np

from vf.oracles import jaccard as J
from vf.props import _metric as M

LEVEL = 'exploration'
RULE = ('cases = triples (A,B,C) of k-mer sets; exhaustive: all triples of subsets of a 5-value (thorough: 6-value) universe, '
        'with the pairwise distance table computed by the real function for all 3x3 unsigned width combinations (+ signed); '
        'random triples up to 1e4 elements built to stress the triangle inequality (B = A|C, A&C, chains, near-equal); '
        'non-trivial = at least two of the three sets differ; distinct = triple by hash')
ASSUMPTIONS = ['"strictly decreases" is only a theorem for A != B (at distance 0 it stays 0) and |A or B|+1 < 2^22; it is demanded only there',
               'triangle slack 2^-22 with the sum taken in double precision']
REACH = ['gambit.metric:jaccarddist']
SLACK = 2.0 ** -22
WIDTHS = ['u2', 'u4', 'u8']


def shards(tier, seed):
	out = []
	usize = 6
	universes = [[0, 1, 2, 3, 4, 5][:usize], [0, 7, 300, 32767, 65534, 65535][:usize], [3, 65535, 65536, 2 ** 31, 2 ** 32 - 1, 2 ** 32 - 2][:usize]]
	# values that collide when truncated to 16 / 32 bits
	universes.append([3, 65536 + 3, 5, 65536 + 5, 2 ** 17 + 3, 2 ** 31 - 1])
	universes.append([3, 2 ** 32 + 3, 5, 2 ** 32 + 5, 2 ** 33 + 3, 2 ** 63 - 1])
	# 64-bit values on both sides of 2^63 (k = 32 k-mers starting with A/C and with G/T), pairs exactly 2^63 apart, the largest index
	universes.append([5, 7, 2 ** 63 - 1, 2 ** 63, 2 ** 63 + 7, 2 ** 64 - 1])
	for ui, U in enumerate(universes):
		widths = WIDTHS if max(U) < 65536 else (['u4', 'u8', 'i8'] if max(U) < 2 ** 32 else (['u8', 'i8'] if max(U) < 2 ** 63 else ['u8']))
		out.append(dict(name=f'exh-U{ui}', kind='exh', U=U, widths=widths))
	# mixed widths where the wider signature holds values the narrower type cannot represent (value + 2^16 / 2^32 "twins")
	out.append(dict(name='mixed-16', kind='mixed', low=[0, 1, 5, 65535], shift=65536, narrow=['u2', 'i4' if False else 'u2'], wide=['u4', 'u8', 'i4', 'i8']))
	out.append(dict(name='mixed-32', kind='mixed', low=[0, 3, 65536, 2 ** 32 - 1], shift=2 ** 32, narrow=['u4'], wide=['u8', 'i8']))
	n = 6 if tier == 'quick' else 32
	for i in range(n):
		out.append(dict(name=f'rand-{i}', kind='rand', sub=i, n=250 if tier == 'quick' else 1500, maxsize=3000 if tier == 'quick' else 10000))
	out.append(dict(name='asan-rand', kind='rand', sub=991, n=60 if tier == 'quick' else 400, maxsize=1000, sanitizer='asan'))
	for s_ in out:
		if s_.get('kind') in ['rand'] and not s_.get('sanitizer'):
			s_['contracts'] = ['C02']
	out.append(dict(name='suite-contracts', kind='suite-contracts', which=['C02'], tests=['tests/test_metric.py']))
	return out


def _d(gm, a, b):
	return float(gm.jaccarddist(a, b))


def check_pair_props(ctx, A, B, dab, dba, w):
	"""A, B python sets; dab/dba floats."""
	if not (0.0 <= dab <= 1.0):
		ctx.violation('out-of-range', f'd={dab!r} not in [0,1]', w)
	if J.bits(dab) != J.bits(dba):
		ctx.violation('asymmetric', f'd(a,b)={dab!r} d(b,a)={dba!r}', w)
	if (dab == 0.0) != (A == B):
		ctx.violation('identity', f'd={dab!r} but A==B is {A == B}', w)
	disj = (not (A & B)) and bool(A or B)
	if (dab == 1.0) != disj:
		ctx.violation('disjointness', f'd={dab!r} but "disjoint and not both empty" is {disj}', w)


def run_mixed(sh, ctx, gm):
	"""All pairs (A wide, B narrow): A ranges over subsets of low + (low+shift), B over subsets of low. Every pair property + exact value,
	both argument orders. A twin x+shift must never be confused with x."""
	low = sh['low']
	high = [x + sh['shift'] for x in low]
	UA = low + high
	subsA = [frozenset(c) for r in range(len(UA) + 1) for c in itertools.combinations(UA, r)]
	subsB = [frozenset(c) for r in range(len(low) + 1) for c in itertools.combinations(low, r)]
	ctx.notes.setdefault('exhaustive_scopes', []).append(f'all subsets of {UA} (wide types {sh["wide"]}) x all subsets of {low} (narrow types {sh["narrow"]})')
	for wa in sh['wide']:
		for wb in set(sh['narrow']):
			if any(x > M.maxval(wa) for x in UA):
				continue
			for A in subsA:
				a = M.arr(A, wa)
				for B in subsB:
					b = M.arr(B, wb)
					dab, dba = _d(gm, a, b), _d(gm, b, a)
					w = dict(A=sorted(A), B=sorted(B), widths=[wa, wb])
					ctx.case(('mixed', wa, wb, sorted(A), sorted(B)), nontrivial=A != B)
					ctx.count('mixed_width_pairs_with_unrepresentable_values' if any(x > M.maxval(wb) for x in A) else 'mixed_width_pairs')
					check_pair_props(ctx, A, B, dab, dba, w)
					s, u = J.dist_su(A, B)
					if J.bits(dab) != J.expected_bits(s, u):
						ctx.violation('value', f'd={dab!r} for s/u={s}/{u} (widths {wa}/{wb})', w)
					# storing the narrow signature in the wide type must not change anything
					d2 = _d(gm, a, b.astype(wa))
					if J.bits(d2) != J.bits(dab):
						ctx.violation('width-dependent', f'd={dab!r} with B as {wb}, {d2!r} with B stored as {wa}', w)


def run_shard(sh, ctx):
	import gambit.metric as gm
	if sh['kind'] == 'mixed':
		return run_mixed(sh, ctx, gm)
	if sh['kind'] == 'exh':
		U = sh['U']
		subsets = [frozenset(c) for r in range(len(U) + 1) for c in itertools.combinations(U, r)]
		n = len(subsets)
		ctx.notes['exhaustive_scopes'] = [f'all {n}^3 triples of subsets of {U}, widths {sh["widths"]}']
		arrs = {w: [M.arr(s, w) for s in subsets] for w in sh['widths']}
		# distance table by the real function, every width combination
		tabs = {}
		for wa in sh['widths']:
			for wb in sh['widths']:
				T = np.empty((n, n), dtype='f8')
				for i in range(n):
					for j in range(n):
						T[i, j] = _d(gm, arrs[wa][i], arrs[wb][j])
				tabs[wa, wb] = T
				ctx.count('real_calls', n * n)
		base = tabs[sh['widths'][0], sh['widths'][0]]
		for (wa, wb), T in tabs.items():
			ctx.count(f'width_combo:{wa}/{wb}')
			if not np.array_equal(T.view('u8'), base.view('u8')):
				i, j = np.argwhere(T != base)[0]
				ctx.violation('width-dependent', f'd differs between widths {wa}/{wb} and {sh["widths"][0]}: {T[i, j]!r} vs {base[i, j]!r}',
				              dict(A=sorted(subsets[i]), B=sorted(subsets[j]), widths=[wa, wb]))
		# the same sets stored in the other byte order (what a file written on another platform hands out): either refused, or the same
		# distance - never another value
		for wa in sh['widths']:
			dsw = np.dtype(wa).newbyteorder('>' if np.dtype(wa).byteorder in ('<', '=') and sys.byteorder == 'little' else '<')
			if np.dtype(wa).itemsize == 1:
				continue
			for i in range(n):
				a_sw = arrs[wa][i].astype(dsw)
				for j in range(n):
					for x, y in ((a_sw, arrs[wa][j]), (arrs[wa][j], a_sw)):
						try:
							v = _d(gm, x, y)
						except Exception:
							ctx.count('foreign_byte_order_refused')
							continue
						ctx.count('foreign_byte_order_accepted')
						if v != base[i, j]:
							ctx.violation('byte-order-dependent', f'd of the same sets is {v!r} when one of them is stored as {dsw.str}, {base[i, j]!r} natively',
							              dict(A=sorted(subsets[i]), B=sorted(subsets[j]), dtype=dsw.str))
		# the same metric properties for the distance as reported by the bulk entry points (list-backed and concatenated references)
		from gambit.sigs.base import SignatureArray, SignatureList
		w0 = sh['widths'][0]
		mixed = [arrs[sh['widths'][i % len(sh['widths'])]][i] for i in range(n)]     # the same sets, stored in alternating integer widths
		wl = sh['widths'][-1]
		empty_i = subsets.index(frozenset())
		for cname, cont in (('list', list(arrs[w0])), ('SignatureList', SignatureList(list(arrs[w0]), None, dtype=np.dtype(w0))), ('SignatureArray', SignatureArray(arrs[w0], None, dtype=np.dtype(w0))),
		                    ('mixed-width list', list(mixed)), ('mixed-width SignatureList', SignatureList(list(mixed), None)),
		                    ('one-reference SignatureArrays', None), ('chunks of two', None), ('matrix with rotated and shuffled ref_indices', None), ('matrix into a Fortran-ordered out', None), ('rows into columns of a matrix', None), ('pairwise, empty signatures last', None), ('pairwise on a list, empty signatures first', None),
		                    ('two slices of one open signature file', None)):
			Tb = np.empty((n, n), dtype='f8')
			if cname == 'one-reference SignatureArrays':
				# every reference alone in its own concatenated array (a database / chunk that holds a single genome)
				singles = [SignatureArray([arrs[w0][j]], None, dtype=np.dtype(w0)) for j in range(n)]
				for i in range(n):
					for j in range(n):
						Tb[i, j] = gm.jaccarddist_array(arrs[wl][i], singles[j])[0]
			elif cname == 'matrix into a Fortran-ordered out':
				# the caller's own result buffer, laid out column-major: the distances must arrive in it
				Mx = np.full((n, n), np.nan, dtype='f4', order='F')
				gm.jaccarddist_matrix(SignatureArray(arrs[wl], None, dtype=np.dtype(wl)), SignatureArray(arrs[w0], None, dtype=np.dtype(w0)), out=Mx, chunksize=5)
				Tb[:] = Mx
			elif cname == 'rows into columns of a matrix':
				Mx = np.full((n, n), np.nan, dtype='f4')
				sa = SignatureArray(arrs[w0], None, dtype=np.dtype(w0))
				for i in range(n):
					gm.jaccarddist_array(arrs[wl][i], sa, out=Mx[:, i])      # a strided view as out=
				Tb[:] = Mx.T
			elif cname == 'matrix with rotated and shuffled ref_indices':
				sa = SignatureArray(arrs[w0], None, dtype=np.dtype(w0))
				qa_ = SignatureArray(arrs[wl], None, dtype=np.dtype(wl))
				rr_ = __import__('random').Random(n)
				neg_ = [j - n for j in rr_.sample(range(n), n)]                       # every reference counted from the end
				mix_ = [j - n if k_ % 2 else j for k_, j in enumerate(rr_.sample(range(n), n))]
				for sel, chunk in ((list(range(1, n)) + [0], 3), (rr_.sample(range(n), n), None), (rr_.sample(range(n), n), 4), (neg_, None), (mix_, 5), (np.array(neg_, dtype='i8'), 7)):
					Mx = gm.jaccarddist_matrix(qa_, sa, ref_indices=sel, chunksize=chunk)
					for pos, j in enumerate(sel):
						Tb[:, int(j) % n] = Mx[:, pos]
					if not np.array_equal(Tb, base):
						break
			elif cname == 'two slices of one open signature file':
				# the collection stored in a signature file; queries and references are two slices of the SAME open file, both obtained
				# before the call and alive during it (first half against second half, the other way round, and each half against a
				# second slice of itself)
				from gambit.sigs.base import AnnotatedSignatures, SignaturesMeta, dump_signatures, load_signatures
				from gambit.kmers import KmerSpec
				ks_ = KmerSpec({1: 4, 2: 8, 4: 16, 8: 32}[np.dtype(w0).itemsize], 'AT')
				dtf = np.dtype(w0) if np.dtype(w0).kind == 'u' else np.dtype('u' + str(np.dtype(w0).itemsize))
				pth = ctx.workdir / f'tbl_{sh["name"]}.gs'
				dump_signatures(str(pth), AnnotatedSignatures(SignatureArray([a_.astype(dtf) for a_ in arrs[w0]], ks_, dtype=dtf), [f's{j}' for j in range(n)], SignaturesMeta(id='t')))
				with load_signatures(str(pth)) as f_:
					for h in (n // 2, n // 3):
						lo1, hi1, lo2, hi2 = f_[0:h], f_[h:n], f_[0:h], f_[h:n]
						Tb[0:h, h:n] = gm.jaccarddist_matrix(lo1, hi1)
						Tb[h:n, 0:h] = gm.jaccarddist_matrix(hi2, lo2, chunksize=7)
						Tb[0:h, 0:h] = gm.jaccarddist_matrix(lo1, lo2)
						Tb[h:n, h:n] = gm.jaccarddist_matrix(hi2, hi1)
						if not np.array_equal(Tb, base):
							break
			elif cname == 'chunks of two':
				# references ordered so that the empty set and its copy form a chunk of their own
				order = [empty_i, empty_i] + [j for j in range(n) if j != empty_i]
				sa = SignatureArray([arrs[w0][j] for j in order], None, dtype=np.dtype(w0))
				Mx = gm.jaccarddist_matrix(SignatureArray(arrs[wl], None, dtype=np.dtype(wl)), sa, chunksize=2)
				for pos, j in enumerate(order):
					Tb[:, j] = Mx[:, pos]
			elif cname.startswith('pairwise'):
				# all-against-all of one collection that holds the empty set three times, at the end / at the start
				order = [j for j in range(n) if j != empty_i]
				order = order + [empty_i] * 3 if 'last' in cname else [empty_i] * 3 + order
				seqs = [arrs[w0][j] for j in order]
				P = gm.jaccarddist_pairwise(SignatureArray(seqs, None, dtype=np.dtype(w0)) if 'list' not in cname else SignatureList(seqs, None, dtype=np.dtype(w0)))
				Tb[:] = np.nan
				for a_, ja in enumerate(order):
					for b_, jb in enumerate(order):
						if a_ != b_ or ja != empty_i:
							if not np.isnan(Tb[ja, jb]) and Tb[ja, jb] != P[a_, b_]:
								ctx.violation('identity', f'{cname}: two copies of the same pair of sets get different distances {Tb[ja, jb]!r} and {P[a_, b_]!r}', dict(A=sorted(subsets[ja]), B=sorted(subsets[jb]), via=cname))
							Tb[ja, jb] = P[a_, b_]
			else:
				for i in range(n):
					Tb[i, :] = gm.jaccarddist_array(arrs[wl][i], cont) if 'list' != cname[-4:] or i % 2 else gm.jaccarddist_matrix([arrs[wl][i]], cont)[0]
			ctx.count(f'bulk_tables:{cname}')
			ctx.evals += n * n
			for i in range(n):
				for j in range(n):
					check_pair_props(ctx, subsets[i], subsets[j], Tb[i, j], Tb[j, i], dict(A=sorted(subsets[i]), B=sorted(subsets[j]), via=f'jaccarddist_array on {cname}'))
			for a in range(n):
				m = Tb[a, :][None, :] > Tb[a, :, None] + Tb + SLACK
				if m.any():
					b, c = np.argwhere(m)[0]
					ctx.violation('triangle', f'via jaccarddist_array on {cname}: d(a,c)={Tb[a, c]!r} > d(a,b)+d(b,c)={Tb[a, b] + Tb[b, c]!r}+2^-22',
					              dict(A=sorted(subsets[a]), B=sorted(subsets[b]), C=sorted(subsets[c]), via=cname))
					break
		# pair properties + add-element monotonicity
		fresh = max(U) + 1 if max(U) + 1 <= min(M.maxval(w_) for w_ in sh['widths']) else next(x for x in range(len(U) + 1) if x not in U)
		for i in range(n):
			for j in range(n):
				A, B = subsets[i], subsets[j]
				w = dict(A=sorted(A), B=sorted(B))
				ctx.case(('pair', sorted(A), sorted(B)), nontrivial=A != B)
				check_pair_props(ctx, A, B, base[i, j], base[j, i], w)
				if A != B:
					d2 = _d(gm, M.arr(A | {fresh}, sh['widths'][0]), M.arr(B | {fresh}, sh['widths'][-1]))
					ctx.count('add_common_element_checks')
					if not d2 < base[i, j]:
						ctx.violation('not-strictly-decreasing', f'adding {fresh} to both: {base[i, j]!r} -> {d2!r}', w)
		# triangle, all ordered triples (table lookups of real results)
		viol = 0
		for a in range(n):
			dac = base[a, :]                       # [c]
			s = base[a, :, None] + base[:, :]      # [b,c] = d(a,b)+d(b,c)
			m = dac[None, :] > s + SLACK
			if m.any():
				for b, c in np.argwhere(m)[:3]:
					ctx.violation('triangle', f'd(a,c)={base[a, c]!r} > d(a,b)+d(b,c)={base[a, b] + base[b, c]!r}+2^-22',
					              dict(A=sorted(subsets[a]), B=sorted(subsets[b]), C=sorted(subsets[c])))
			ctx.evals += n * n
		# count distinct non-trivial triples: all triples with at least two different sets
		ctx.notes['triples_enumerated'] = n ** 3
		ui = int(sh['name'][-1])
		for a in range(n):
			for b in range(n):
				for c in range(n):
					if not (a == b == c):
						ctx.hashes.add((ui << 60) | (a << 40) | (b << 20) | c)
		ctx.count('triples_checked', n ** 3)
		ctx.samples.append(dict(universe=U, example_triple=[sorted(subsets[3]), sorted(subsets[9]), sorted(subsets[17])],
		                        d_ab=base[3, 9], d_bc=base[9, 17], d_ac=base[3, 17]))
	else:
		rng = random.Random(f'C15-{ctx.seed}-{sh["sub"]}')
		for t in range(sh['n']):
			size = rng.choice([1, 3, 10, 100, 1000, sh['maxsize']])
			span = size * rng.choice([2, 3, 10])
			A = set(rng.sample(range(span), min(size, span)))
			C = set(rng.sample(range(span), min(max(size // rng.choice([1, 2, 3]), 1), span)))
			cls = rng.choice(['union', 'inter', 'chain', 'near', 'random', 'a-sub-c'])
			if cls == 'union':
				B = A | C
			elif cls == 'inter':
				B = A & C
			elif cls == 'chain':
				B = set(list(A)[:len(A) // 2]) | set(list(C)[:len(C) // 2])
			elif cls == 'near':
				B = set(A); B.symmetric_difference_update({rng.randrange(span)}); C = set(B); C.symmetric_difference_update({rng.randrange(span)})
			elif cls == 'a-sub-c':
				C = A | C; B = A | set(list(C)[:len(C) // 2])
			else:
				B = set(rng.sample(range(span), min(size, span)))
			off = rng.choice([0, 0, 60000 - span if span < 60000 else 0, 2 ** 32 - span - 1, 2 ** 63 - span - 1])
			wa, wb, wc = (rng.choice([w for w in M.DTYPES if M.maxval(w) >= span + off]) for _ in range(3))
			a, b, c = (M.arr({x + off for x in S_}, w) for S_, w in ((A, wa), (B, wb), (C, wc)))
			dab, dba, dbc, dcb, dac, dca = _d(gm, a, b), _d(gm, b, a), _d(gm, b, c), _d(gm, c, b), _d(gm, a, c), _d(gm, c, a)
			w = dict(cls=cls, sizes=[len(A), len(B), len(C)], widths=[wa, wb, wc], off=off, A=sorted(A)[:30], B=sorted(B)[:30], C=sorted(C)[:30])
			ctx.case(('tri', cls, sorted(A)[:50], sorted(B)[:50], sorted(C)[:50], len(A), len(B), len(C), off), nontrivial=not (A == B == C),
			         sample=dict(cls=cls, sizes=[len(A), len(B), len(C)], widths=[wa, wb, wc], d=[dab, dbc, dac]) if t % 97 == 0 else None)
			ctx.count(f'class:{cls}')
			check_pair_props(ctx, A, B, dab, dba, w)
			check_pair_props(ctx, B, C, dbc, dcb, w)
			check_pair_props(ctx, A, C, dac, dca, w)
			for x, y, z, nm in ((dac, dab, dbc, 'a-b-c'), (dab, dac, dcb, 'a-c-b'), (dbc, dba, dac, 'b-a-c')):
				if x > y + z + SLACK:
					ctx.violation('triangle', f'{nm}: {x!r} > {y!r} + {z!r} + 2^-22', w)
			# exact value too (ties this property to the true ratio)
			for X, Y, d in ((A, B, dab), (B, C, dbc), (A, C, dac)):
				s, u = J.dist_su(X, Y)
				if J.bits(d) != J.expected_bits(s, u):
					ctx.violation('value', f'd={d!r} for s/u={s}/{u}', w)
			# width invariance
			for X, arrX, Y, arrY, d in ((A, a, B, b, dab),):
				for w2 in ('u8', 'i8', 'u4'):
					if M.maxval(w2) >= span + off:
						d2 = _d(gm, arrX.astype(w2), arrY)
						d3 = _d(gm, arrX, arrY.astype(w2))
						ctx.count('width_invariance_checks', 2)
						if J.bits(d2) != J.bits(d) or J.bits(d3) != J.bits(d):
							ctx.violation('width-dependent', f'd={d!r} widened to {w2}: {d2!r}/{d3!r}', w)
			# strict decrease when a common new element is added
			if A != B and len(A | B) + 1 < 2 ** 22:
				fresh = span + off  # not in any set, still representable in all chosen widths? check
				if fresh <= min(M.maxval(wa), M.maxval(wb)):
					d2 = _d(gm, M.arr({x + off for x in A} | {fresh}, wa), M.arr({x + off for x in B} | {fresh}, wb))
					ctx.count('add_common_element_checks')
					if not d2 < dab:
						ctx.violation('not-strictly-decreasing', f'{dab!r} -> {d2!r} after adding {fresh} to both', w)


def finalize(merged, tier, seed, inconclusive):
	c = merged['counters']
	for n in ['triples_checked', 'add_common_element_checks', 'width_invariance_checks', 'class:union', 'class:near', 'width_combo:u2/u8', 'width_combo:u8/u2', 'mixed_width_pairs_with_unrepresentable_values', 'bulk_tables:list', 'bulk_tables:SignatureArray', 'bulk_tables:one-reference SignatureArrays', 'bulk_tables:chunks of two', 'bulk_tables:matrix with rotated and shuffled ref_indices', 'bulk_tables:pairwise, empty signatures last', 'bulk_tables:two slices of one open signature file']:
		if c.get(n, 0) == 0:
			inconclusive.append(f'class never observed: {n}')
	merged['notes'].setdefault('sanitizer_stage', {})
	if not merged['notes'].get('overlay_loaded', {}).get('asan') and not merged['notes']['sanitizer_stage']:
		inconclusive.append('ASan/UBSan overlay was never loaded')
	return dict(exhaustive=True, exhaustive_note='exh-U* shards check every ordered triple of subsets of their universe; rand shards are sampled')
