"""Chromosome-sized, almost empty sequences with occurrences planted around power-of-two positions (shared by C01 and C06).

Any implementation that works through a sequence in blocks, windows or buffers has its seams at such positions; the filler can form
neither the prefix nor its reverse complement, so the expected signature is decided by the planted occurrences (and computed by the
reference definition on the whole sequence anyway)."""

COMP = bytes.maketrans(b'ACGT', b'TGCA')


def filler_letters(prefix: bytes) -> bytes:
	cand = [c for c in (b'CG', b'AT', b'AG', b'CT', b'AC', b'GT', b'C', b'A', b'G', b'T')
	        if not (set(prefix) <= set(c)) and not (set(prefix.translate(COMP)) <= set(c))]
	return cand[0]


def boundaries(top: int):
	return sorted({1 << b for b in range(10, top + 1)} | {m << 20 for m in range(1, (1 << max(top - 20, 0)) + 1)} | ({3 << 19} if top >= 21 else set()))


def block_sequence(rng, k: int, prefix: bytes, top: int, offset_of):
	"""-> (bytes, number planted). offset_of(boundary index) -> offset of the planted occurrence relative to the boundary."""
	tl = k + len(prefix)
	fill = filler_letters(prefix)
	bounds = boundaries(top)
	n = bounds[-1] + 4 * tl + 7
	seq = bytearray(bytearray(rng.choice(fill) for _ in range(4096)) * (n // 4096 + 1))[:n]
	planted = 0
	for bi, B in enumerate(bounds):
		kmer = bytes(rng.choice(b'ACGT') for _ in range(k))
		occ = prefix + kmer
		if rng.random() < 0.5:
			occ = occ.translate(COMP)[::-1]         # the occurrence lies on the reverse strand
		if rng.random() < 0.3:
			occ = occ.lower()
		pos = B + offset_of(bi)
		if pos < 0 or pos + tl > n:
			continue
		seq[pos:pos + tl] = occ
		planted += 1
	return bytes(seq), planted
