"""C19 - an interrupted signature-file write never yields a loadable wrong file.

Monitor: the writer runs in a forked child that SIGKILLs itself immediately before / after its n-th
storage-library call (every n enumerated); a second stage kills a fresh writer process at its N-th
pwrite64 system call through strace fault injection. The file left behind is then handed to
load_signatures (in another child, so a crashing reader cannot take the monitor down): the outcome must be
"refused with an error" or "loaded and equal to what was being written"."""

import os
import sys
import json
import random
import signal
import subprocess

import numpy as np

LEVEL = 'fault_enumeration'
RULE = ('cases = (payload, write path, compression, crash point); crash points: immediately before and after every call of '
        'h5py AttributeManager.__setitem__ / Group.create_dataset / Dataset.__setitem__ / File.flush / File.close made by the writer '
        '(all enumerated for small and medium payloads, dense ends + uniform sample for multi-megabyte ones in the quick tier) and '
        'SIGKILL at the N-th pwrite64 for every N (strace injection); non-trivial = every crash point; distinct = (payload, path, point)')
ASSUMPTIONS = ['crash model = death of the writer process with the OS staying up: SIGKILL (no clean-up), SIGINT (KeyboardInterrupt unwinds first) and an unhandled I/O error raised by a storage call; torn single writes / power loss below the page cache are not modelled',
               'a complete file left by a kill after the last data-bearing write is "a file that does load and contains exactly what was being written"']
REACH = ['gambit.sigs.hdf5:load_signatures_hdf5']
PY = '/venv/bin/python'


def shards(tier, seed):
	out = []
	payloads = [
		dict(name='small-array', path='array', nsig=5, size=100, comp=None),
		dict(name='small-list', path='list', nsig=5, size=100, comp=None),
		dict(name='small-list-gzip', path='list', nsig=5, size=100, comp='gzip'),
		dict(name='small-array-lzf', path='array', nsig=4, size=50, comp='lzf'),
		dict(name='small-wrapped-array', path='wrapped-array', nsig=5, size=100, comp=None),
		dict(name='empty-sigs-list', path='list', nsig=6, size=0, comp=None),
		dict(name='overwrite-list', path='list', nsig=6, size=80, comp=None, preexisting=True),
		dict(name='overwrite-array', path='array', nsig=6, size=80, comp=None, preexisting=True),
		dict(name='overwrite-list-strids-gzip', path='list', nsig=7, size=60, comp='gzip', ids='str', preexisting=True),
		dict(name='annotated-list-strids', path='list', nsig=8, size=30, comp=None, ids='str'),
		dict(name='annotated-list-empty-meta', path='list', nsig=4, size=30, comp=None, ids='str', meta='empties'),
		dict(name='wrapped-array-none-meta', path='wrapped-array', nsig=4, size=30, comp=None, meta='nones'),
		dict(name='re-annotated-wrapper', path='list', nsig=5, size=30, comp=None, ids='str', nested='wrapper'),
		dict(name='re-annotated-file', path='list', nsig=5, size=30, comp=None, nested='file'),
		dict(name='file-to-file-copy', path='list', nsig=9, size=40, comp=None, ids='str', source='file'),
		dict(name='file-to-file-copy-gzip', path='list', nsig=9, size=40, comp='gzip', source='file'),
		dict(name='medium-list', path='list', nsig=120, size=400, comp=None),
		dict(name='medium-array-gzip', path='array', nsig=120, size=400, comp='gzip'),
		dict(name='large-list-8MB', path='list', nsig=500, size=2000, comp=None, dt='u8'),
		dict(name='large-array-16MB', path='array', nsig=400, size=5000, comp=None, dt='u8'),
		dict(name='large-list-gzip', path='list', nsig=300, size=3000, comp='gzip', dt='u8'),
	]
	if tier == 'thorough':
		payloads += [dict(name='huge-list-64MB', path='list', nsig=2000, size=4000, comp=None, dt='u8'),
		             dict(name='many-small-list', path='list', nsig=3000, size=3, comp=None),
		             dict(name='medium-list-lzf', path='list', nsig=150, size=300, comp='lzf')]
	for p in payloads:
		out.append(dict(name=f'calls-{p["name"]}', kind='calls', payload=p, maxpoints=140 if tier == 'quick' else 100000))
	byname = {p['name']: p for p in payloads}
	for nm in ('small-array', 'small-list', 'small-list-gzip', 'small-array-lzf', 'overwrite-array', 'overwrite-list', 'medium-list', 'medium-array-gzip'):
		out.append(dict(name=f'sys-{nm}', kind='sys', payload=byname[nm], maxpoints=14 if tier == 'quick' else 400))
	out.append(dict(name='sys-large-list', kind='sys', payload=byname['large-list-8MB'], maxpoints=10 if tier == 'quick' else 150))
	ncli = 4 if tier == 'quick' else 8
	for j in range(ncli):
		out.append(dict(name=f'cli-create-{j}', kind='cli', part=j, nparts=ncli, nfiles=4 if tier == 'quick' else 8))
	return out


# ---- payload --------------------------------------------------------------------------------------------

_CACHE = {}


def build_payload(p):
	"""Deterministic payload (cached: forked children inherit the parent's copy)."""
	if p['name'] in _CACHE:
		return _CACHE[p['name']]
	from gambit.sigs.base import SignatureArray, SignatureList, AnnotatedSignatures, SignaturesMeta
	from gambit.kmers import KmerSpec
	import zlib
	rs = np.random.RandomState(zlib.crc32(p['name'].encode()))
	dt = np.dtype(p.get('dt', 'u4'))
	ks = KmerSpec(20 if dt.itemsize == 8 else 12, 'ATG')
	sigs = []
	for i in range(p['nsig']):
		n = p['size'] if p['size'] == 0 else max(1, p['size'] + int(rs.randint(-(p['size'] // 3), p['size'] // 3 + 1)))
		# non-zero, strictly increasing content so that zero-filled or shortened data is visible
		a = np.cumsum(rs.randint(1, 1000, size=n).astype('u8')) + 1 if n else np.zeros(0, 'u8')
		sigs.append(a.astype(dt))
	base = SignatureArray(sigs, ks, dtype=dt) if p['path'] in ('array', 'wrapped-array') else SignatureList(list(sigs), ks, dtype=dt)
	ids = [f'genome-{i}-é' for i in range(len(sigs))] if p.get('ids') == 'str' else list(range(100, 100 + len(sigs)))
	meta = SignaturesMeta(id='payload', name=p['name'], version='1.0', id_attr='key', description='crash test', extra={'n': len(sigs), 'nested': {'a': [1, 2, 3]}})
	if p.get('meta') == 'empties':
		# empty strings are values, not "missing": they must come back as empty strings
		meta = SignaturesMeta(id='', name='', version='', id_attr='', description='', extra={})
	elif p.get('meta') == 'nones':
		meta = SignaturesMeta(id=None, name=None, version=None, id_attr=None, description=None, extra=None)
	if p.get('ids') == 'str' and p.get('meta'):
		ids = [''] + [f' {i}' for i in range(1, len(sigs))]    # an empty id and ids with a leading blank
	if p['path'] == 'array':
		# HDF5Signatures only takes its whole-array write path for a bare SignatureArray (a wrapper goes through the per-signature path)
		ids, meta, obj = list(range(len(sigs))), SignaturesMeta(), base
	else:
		obj = AnnotatedSignatures(base, ids, meta)
	if p.get('nested'):
		# the collection already carries OTHER ids and metadata one level down (a wrapper, or a signature file on disk)
		from gambit.sigs.base import dump_signatures, load_signatures
		inner = AnnotatedSignatures(base, [f'old-{i}' for i in range(len(sigs))] if not isinstance(ids[0], str) else list(range(700, 700 + len(sigs))),
		                            SignaturesMeta(id='old-set', name='old', version='0.1', id_attr='refseq_acc', description='old', extra={'old': True}))
		if p['nested'] == 'file':
			src = os.path.join(p['_workdir'], f'source-{p["name"]}.gs')
			dump_signatures(src, inner)
			inner = load_signatures(src)
		obj = AnnotatedSignatures(inner, ids, meta)
	if p.get('source') == 'file':
		# the collection being written is itself a signature file on disk (file -> file copy, e.g. re-compressing a database)
		from gambit.sigs.base import dump_signatures, load_signatures
		src = os.path.join(p['_workdir'], f'source-{p["name"]}.gs')
		dump_signatures(src, obj)
		obj = load_signatures(src)
	_CACHE[p['name']] = (obj, sigs, ks, ids, meta)
	return _CACHE[p['name']]


def do_write(p, path):
	from gambit.sigs.base import dump_signatures
	obj, *_ = build_payload(p)
	kw = {'compression': p['comp']} if p.get('comp') else {}
	dump_signatures(str(path), obj, **kw)


def compare_loaded(h, p):
	"""-> 'loaded-equal' or 'loaded-different:<what>' (reads everything; raises if reading fails)."""
	obj, sigs, ks, ids, meta = build_payload(p)
	if h.kmerspec != ks:
		return 'loaded-different:kmerspec'
	if len(h) != len(sigs):
		return f'loaded-different:length {len(h)} vs {len(sigs)}'
	if [x if isinstance(x, str) else int(x) for x in h.ids] != ids:
		return 'loaded-different:ids'
	for f in ('id', 'name', 'version', 'id_attr', 'description', 'extra'):
		if getattr(h.meta, f) != getattr(meta, f):
			return f'loaded-different:meta.{f}'
	for i, s in enumerate(sigs):
		g = h[i]
		if g.dtype != s.dtype or not np.array_equal(g, s):
			return f'loaded-different:signature {i} ({"zero-filled" if len(g) and not g.any() else "content"})'
	return 'loaded-equal'


# ---- child processes ------------------------------------------------------------------------------------

WRAPPED = ['AttributeManager.__setitem__', 'Group.create_dataset', 'Dataset.__setitem__', 'File.flush', 'File.close']


def die(how):
	"""The ways a writer process dies. 'kill': SIGKILL (also what SIGTERM's default action amounts to: no clean-up runs).
	'sigint': Ctrl-C - CPython's handler raises KeyboardInterrupt, the interpreter unwinds (context managers close the file
	cleanly) and the process then dies of SIGINT. 'oserror': the storage call fails (disk full, I/O error), the exception is not
	handled anywhere and the process exits with a traceback."""
	if how == 'kill':
		os.kill(os.getpid(), signal.SIGKILL)
	elif how == 'sigint':
		os.kill(os.getpid(), signal.SIGINT)
		for _ in range(1000):       # the handler runs between two bytecodes
			pass
		raise KeyboardInterrupt()   # not reached when the handler is installed
	else:
		raise OSError(28, 'No space left on device (injected)')


def die_after_unwinding(e):
	"""End of the writer child once the exception has propagated out of the library: die the way CPython does."""
	if isinstance(e, KeyboardInterrupt):
		signal.signal(signal.SIGINT, signal.SIG_DFL)
		os.kill(os.getpid(), signal.SIGINT)
	os._exit(1)


def install_kill_wrappers(n, when, counter, how='kill'):
	import h5py
	from h5py._hl.attrs import AttributeManager
	if how == 'sigint':
		signal.signal(signal.SIGINT, signal.default_int_handler)    # a foreground process (the harness may have inherited SIG_IGN)

	def wrap(cls, name):
		orig = getattr(cls, name)

		def w(self, *a, **k):
			counter[0] += 1
			if counter[0] == n and when == 'before':
				die(how)
			r = orig(self, *a, **k)
			if counter[0] == n and when == 'after':
				die(how)
			return r
		setattr(cls, name, w)
	wrap(AttributeManager, '__setitem__'); wrap(h5py.Group, 'create_dataset'); wrap(h5py.Dataset, '__setitem__')
	wrap(h5py.File, 'flush'); wrap(h5py.File, 'close')


def prewrite(p, path):
	"""The output path already holds a complete, different signature file (the user overwrites an older set)."""
	old = dict(p, name=p['name'] + '-OLD', nsig=p['nsig'] + 2, preexisting=False)
	pid = os.fork()
	if pid == 0:
		try:
			do_write(old, path)
		finally:
			os._exit(0)
	os.waitpid(pid, 0)


def forked_write(p, path, n, when, how='kill'):
	"""Run the writer in a forked child, killing it at call n. Returns ('killed'|'completed'|'error', total_calls|None)."""
	if p.get('preexisting') and n != -1:
		prewrite(p, path)
	r, wfd = os.pipe()
	sys.stdout.flush(); sys.stderr.flush()
	pid = os.fork()
	if pid == 0:
		code = 0
		try:
			os.close(r)
			counter = [0]
			install_kill_wrappers(n, when, counter, how)
			do_write(p, path)
			os.write(wfd, str(counter[0]).encode())
		except BaseException as e:
			if how != 'kill' and counter[0] >= n > 0:
				os.write(wfd, b'DIED-UNWINDING')
				die_after_unwinding(e)
			try:
				os.write(wfd, f'ERR {type(e).__name__}: {e}'.encode())
			except Exception:
				pass
			code = 3
		finally:
			os._exit(code)
	os.close(wfd)
	data = b''
	while True:
		chunk = os.read(r, 4096)
		if not chunk:
			break
		data += chunk
	os.close(r)
	_, status = os.waitpid(pid, 0)
	if os.WIFSIGNALED(status) and os.WTERMSIG(status) == signal.SIGKILL:
		return 'killed', None
	if data.startswith(b'DIED-UNWINDING'):
		return 'killed', None
	if data.startswith(b'ERR'):
		return 'error', data.decode()
	return 'completed', int(data or 0)


def forked_load(p, path):
	"""load_signatures in a forked child. -> outcome string."""
	r, wfd = os.pipe()
	sys.stdout.flush(); sys.stderr.flush()
	pid = os.fork()
	if pid == 0:
		out = 'child-error'
		try:
			os.close(r)
			from gambit.sigs.base import load_signatures
			try:
				h = load_signatures(str(path))
			except BaseException as e:
				out = f'refused:{type(e).__name__}'
			else:
				try:
					out = compare_loaded(h, p)
				except BaseException as e:
					out = f'accepted-then-read-error:{type(e).__name__}: {str(e)[:100]}'
			os.write(wfd, out.encode())
		finally:
			os._exit(0)
	os.close(wfd)
	data = b''
	while True:
		chunk = os.read(r, 4096)
		if not chunk:
			break
		data += chunk
	os.close(r)
	_, status = os.waitpid(pid, 0)
	if os.WIFSIGNALED(status):
		return f'loader-crashed:signal {os.WTERMSIG(status)}'
	return data.decode() or 'loader-no-output'


def judge(ctx, outcome, w, point_desc, unwinding=False):
	ctx.count('outcome:' + outcome.split(':')[0] + (':' + outcome.split(':')[1].split(' ')[0] if outcome.startswith('refused') else ''))
	sfx = '-after-unwinding-death' if unwinding else ''
	if outcome.startswith('loaded-different'):
		ctx.violation('partial-file-loads-as-different-collection' + sfx, f'{point_desc}: {outcome}', w)
	elif outcome.startswith('accepted-then-read-error'):
		ctx.violation('partial-file-accepted-then-unreadable' + sfx, f'{point_desc}: {outcome}', w)
	elif outcome.startswith('loader-crashed') or outcome.startswith('loader-no-output') or outcome == 'child-error':
		ctx.count('loader_abnormal')
		ctx.notes.setdefault('loader_abnormal_examples', []).append(dict(w, outcome=outcome))


def select_points(total, maxpoints, rng):
	pts = list(range(1, total + 1))
	if len(pts) <= maxpoints:
		return pts, True
	head = pts[:maxpoints // 3]
	tail = pts[-(maxpoints // 3):]
	mid = rng.sample(pts[len(head):-len(tail)], maxpoints - len(head) - len(tail))
	return sorted(set(head + tail + mid)), False


def run_calls(sh, ctx):
	p = sh['payload']
	rng = random.Random(f'C19-{ctx.seed}-{sh["name"]}')
	path = ctx.workdir / 'w.gs'
	p['_workdir'] = str(ctx.workdir)
	build_payload(p)
	st, total = forked_write(p, path, -1, 'before')
	if st != 'completed' or not total:
		ctx.inconc(f'{sh["name"]}: reference write did not complete: {st} {total}')
		return
	ref = forked_load(p, path)
	if ref != 'loaded-equal':
		ctx.violation('complete-write-does-not-round-trip', f'uninterrupted write loads as {ref}', dict(payload=p))
		return
	size_full = path.stat().st_size
	# one in-process load of the complete file (reach monitor: the reader really is the library's)
	from gambit.sigs.base import load_signatures
	h = load_signatures(str(path))
	if compare_loaded(h, p) != 'loaded-equal':
		ctx.violation('complete-write-does-not-round-trip', 'in-process load differs', dict(payload=p))
	h.close()
	os.unlink(path)
	pts, exhaustive = select_points(total, sh['maxpoints'], rng)
	ctx.notes.setdefault('payloads', {})[p['name']] = dict(storage_calls=total, crash_points_run=2 * len(pts), exhaustive=exhaustive, full_size=size_full)
	for n in pts:
		for when in ('before', 'after'):
			if path.exists():
				os.unlink(path)
			st, _ = forked_write(p, path, n, when)
			w = dict(payload=p, call=n, of=total, when=when)
			if st != 'killed':
				ctx.inconc(f'{sh["name"]}: crash point {n}/{when} not reached: {st}')
				continue
			size = path.stat().st_size if path.exists() else -1
			outcome = forked_load(p, path) if size >= 0 else 'refused:FileNotFoundError'
			ctx.case(('calls', p['name'], n, when), nontrivial=True,
			         sample=dict(payload=p['name'], crash=f'{when} storage call {n} of {total}', file_size_left=size, full_size=size_full, outcome=outcome) if (n in (1, total // 2, total)) and when == 'after' else None)
			ctx.count('crash_points:call-level')
			ctx.seen('file_sizes_left', size if size < 10000 else (size // 100000) * 100000)
			judge(ctx, outcome, dict(w, file_size_left=size), f'{p["name"]} killed {when} call {n}/{total}')
	# the same crash points, the writer now dying while the interpreter unwinds (Ctrl-C, failing storage call): the file object's
	# context manager closes - and thereby flushes - the incomplete file before the process is gone
	upts = pts if len(pts) <= 60 else sorted(set(pts[:20] + pts[-20:] + rng.sample(pts[20:-20], 20)))
	for n in upts:
		for how, when in (('sigint', 'after'), ('oserror', 'before')):
			if path.exists():
				os.unlink(path)
			st, _ = forked_write(p, path, n, when, how)
			w = dict(payload=p, call=n, of=total, when=when, death={'sigint': 'SIGINT (KeyboardInterrupt unwinds, then the process dies)', 'oserror': 'the storage call raises OSError, unhandled'}[how])
			if st == 'completed' and how == 'oserror':
				# the storage call failed (the injected OSError was raised inside it) and the writer carried on to the end: the error was
				# swallowed. What is on disk must then still not load as a different collection
				size = path.stat().st_size if path.exists() else -1
				outcome = forked_load(p, path) if size >= 0 else 'refused:FileNotFoundError'
				ctx.count('storage_errors_not_propagated')
				if outcome.startswith(('loaded-different', 'accepted-then-read-error')):
					ctx.violation('storage-error-swallowed-and-file-loads-as-different-collection', f'{p["name"]}: storage call {n}/{total} raised OSError, dump_signatures returned normally and the file {outcome}', dict(w, file_size_left=size))
				continue
			if st != 'killed':
				ctx.inconc(f'{sh["name"]}: crash point {n}/{how} not reached: {st}')
				continue
			size = path.stat().st_size if path.exists() else -1
			outcome = forked_load(p, path) if size >= 0 else 'refused:FileNotFoundError'
			ctx.case(('calls', p['name'], n, how), nontrivial=True,
			         sample=dict(payload=p['name'], crash=f'{how} at storage call {n} of {total}', file_size_left=size, outcome=outcome) if n in (1, total // 2, total) else None)
			ctx.count(f'crash_points:call-level:{how}')
			judge(ctx, outcome, dict(w, file_size_left=size), f'{p["name"]} writer died ({how}) at call {n}/{total}', unwinding=True)
	if exhaustive:
		ctx.count('payloads_enumerated_exhaustively')


# ---- syscall level ------------------------------------------------------------------------------------------

WRITER_SNIPPET = 'import sys, json; from vf.props import c19; c19.do_write(json.loads(sys.argv[1]), sys.argv[2])'
PREWRITE_SNIPPET = 'import sys, json; from vf.props import c19; p = json.loads(sys.argv[1]); c19.do_write(dict(p, name=p["name"] + "-OLD", nsig=p["nsig"] + 2, preexisting=False), sys.argv[2])'


def run_sys(sh, ctx):
	from vf import core
	p = sh['payload']
	rng = random.Random(f'C19-sys-{ctx.seed}-{sh["name"]}')
	path = ctx.workdir / 's.gs'
	env = core.worker_env()
	base = [PY, '-c', WRITER_SNIPPET, json.dumps(p), str(path)]
	# count pwrite64 calls of a full write (on the target file only: -y resolves fds to paths)
	pr = subprocess.run(['strace', '-f', '-y', '-e', 'trace=pwrite64', '-o', str(ctx.workdir / 'trace.txt')] + base, env=env, capture_output=True, timeout=600)
	if pr.returncode != 0:
		ctx.inconc(f'{sh["name"]}: strace reference run failed rc={pr.returncode} {pr.stderr[-300:]!r}')
		return
	lines = [l for l in (ctx.workdir / 'trace.txt').read_text().splitlines() if 'pwrite64(' in l]
	total = len(lines)
	on_target = sum(1 for l in lines if str(path) in l)
	ctx.notes.setdefault('payloads_sys', {})[p['name']] = dict(pwrite64_total=total, pwrite64_on_target=on_target)
	if on_target == 0:
		ctx.inconc(f'{sh["name"]}: no pwrite64 on the target file observed')
		return
	os.unlink(path)
	pts, exhaustive = select_points(total, sh['maxpoints'], rng)
	ctx.notes['payloads_sys'][p['name']].update(crash_points_run=len(pts), exhaustive=exhaustive)
	for n in pts:
		if path.exists():
			os.unlink(path)
		if p.get('preexisting'):
			subprocess.run([PY, '-c', PREWRITE_SNIPPET, json.dumps(p), str(path)], env=env, capture_output=True, timeout=600)
		pr = subprocess.run(['strace', '-f', '-o', '/dev/null', '-e', 'trace=pwrite64', '-e', f'inject=pwrite64:signal=KILL:when={n}'] + base, env=env, capture_output=True, timeout=600)
		size = path.stat().st_size if path.exists() else -1
		outcome = forked_load(p, path) if size >= 0 else 'refused:FileNotFoundError'
		w = dict(payload=p, pwrite64=n, of=total, file_size_left=size)
		ctx.case(('sys', p['name'], n), nontrivial=True, sample=dict(payload=p['name'], crash=f'SIGKILL at pwrite64 #{n} of {total}', file_size_left=size, outcome=outcome) if n in (1, total) else None)
		ctx.count('crash_points:syscall-level')
		judge(ctx, outcome, w, f'{p["name"]} killed at pwrite64 {n}/{total}')
		if outcome == 'loaded-equal':
			ctx.count('syscall_points_leaving_complete_file')


# ---- CLI ----------------------------------------------------------------------------------------------------

def run_cli(sh, ctx):
	"""`gambit signatures create` killed at storage-call boundaries (forked, in-process CLI)."""
	from vf.oracles.fasta import write_fasta
	from vf.oracles import sigdef as S
	from vf import clidrv
	rng = random.Random(f'C19-cli-{ctx.seed}')
	files, exps = [], []
	for i in range(sh['nfiles']):
		contigs = [bytes(rng.choice(b'ACGT') for _ in range(rng.randint(200, 800)))]
		fp = ctx.workdir / f'g{i}.fasta'
		write_fasta(fp, contigs)
		files.append(fp); exps.append(S.signature(7, b'AT', contigs))
	out = ctx.workdir / 'cli.gs'
	args = ['signatures', 'create', '-k', '7', '-p', 'AT', '-o', str(out), '--no-progress', '-c', '1'] + [str(f) for f in files]

	def child(n, when, how='kill'):
		r, wfd = os.pipe()
		sys.stdout.flush(); sys.stderr.flush()
		pid = os.fork()
		if pid == 0:
			try:
				os.close(r)
				counter = [0]
				install_kill_wrappers(n, when, counter, how)
				if how == 'kill':
					code, so, se, exc = clidrv.run_inproc(args)
				else:
					# the command as the console script runs it: an exception / KeyboardInterrupt propagates out of main()
					from gambit.cli import cli
					try:
						cli.main([str(a) for a in args], standalone_mode=False)
						code = 0
					except BaseException as e:
						if counter[0] >= n > 0:
							os.write(wfd, b'DIED-UNWINDING')
							die_after_unwinding(e)
						code = 1
				os.write(wfd, f'{counter[0]} {code}'.encode())
			finally:
				os._exit(0)
		os.close(wfd)
		data = os.read(r, 4096); os.close(r)
		_, status = os.waitpid(pid, 0)
		return ('killed', None) if os.WIFSIGNALED(status) or data.startswith(b'DIED-UNWINDING') else ('completed', data.decode())

	st, data = child(-1, 'before')
	if st != 'completed' or not data or data.split()[1] != '0':
		ctx.inconc(f'cli reference run failed: {st} {data}')
		return
	total = int(data.split()[0])
	ctx.notes['cli_storage_calls'] = total
	# every storage call of the whole command (before and after), split over the cli-create-* shards
	pts = [n for n in range(1, total + 1) if n % sh['nparts'] == sh['part']]
	ctx.notes.setdefault('exhaustive_scopes', []).append(f'signatures create: every storage call 1..{total} (before/after), part {sh["part"]} of {sh["nparts"]}')

	def load_cli(path):
		r, wfd = os.pipe()
		pid = os.fork()
		if pid == 0:
			o = 'child-error'
			try:
				os.close(r)
				from gambit.sigs.base import load_signatures
				try:
					h = load_signatures(str(path))
				except BaseException as e:
					o = f'refused:{type(e).__name__}'
				else:
					try:
						ok = len(h) == len(exps) and all(h[i].tolist() == exps[i] for i in range(len(exps))) and list(h.ids) == [f'g{i}' for i in range(len(exps))]
						o = 'loaded-equal' if ok else 'loaded-different:cli content'
					except BaseException as e:
						o = f'accepted-then-read-error:{type(e).__name__}'
				os.write(wfd, o.encode())
			finally:
				os._exit(0)
		os.close(wfd)
		d = os.read(r, 4096); os.close(r); os.waitpid(pid, 0)
		return d.decode() or 'loader-no-output'

	for n in pts:
		for when in ('before', 'after'):
			if out.exists():
				os.unlink(out)
			st, _ = child(n, when)
			if st != 'killed':
				ctx.inconc(f'cli crash point {n}/{when} not reached')
				continue
			outcome = load_cli(out) if out.exists() else 'refused:FileNotFoundError'
			ctx.case(('cli', n, when), nontrivial=True)
			ctx.count('crash_points:cli')
			judge(ctx, outcome, dict(cli=True, call=n, of=total, when=when), f'signatures create killed {when} call {n}/{total}')
		for how, when in (('sigint', 'after'), ('oserror', 'before')):
			if out.exists():
				os.unlink(out)
			st, _ = child(n, when, how)
			if st != 'killed':
				ctx.inconc(f'cli crash point {n}/{how} not reached')
				continue
			outcome = load_cli(out) if out.exists() else 'refused:FileNotFoundError'
			ctx.case(('cli', n, how), nontrivial=True)
			ctx.count(f'crash_points:cli:{how}')
			judge(ctx, outcome, dict(cli=True, call=n, of=total, death=how), f'signatures create died ({how}) at call {n}/{total}', unwinding=True)


def run_shard(sh, ctx):
	{'calls': run_calls, 'sys': run_sys, 'cli': run_cli}[sh['kind']](sh, ctx)


def finalize(merged, tier, seed, inconclusive):
	c = merged['counters']
	for n in ['crash_points:call-level', 'crash_points:syscall-level', 'crash_points:cli', 'payloads_enumerated_exhaustively', 'crash_points:call-level:sigint', 'crash_points:call-level:oserror', 'crash_points:cli:sigint']:
		if c.get(n, 0) == 0:
			inconclusive.append(f'class never observed: {n}')
	refused = sum(v for k, v in c.items() if k.startswith('outcome:refused'))
	if refused == 0:
		inconclusive.append('no partial file was ever refused: crash points are not producing partial files')
	return dict(exhaustive=True, outcomes={k[8:]: v for k, v in c.items() if k.startswith('outcome:')},
	            exhaustive_note='every storage-call crash point (before and after) of the small / medium payloads is enumerated; large payloads are sampled in the quick tier (see notes.payloads[*].exhaustive)')
