"""C17 - the tree command outputs the UPGMA dendrogram of the pairwise distances.

Monitor: stdout of `gambit tree` is parsed with an independent Newick parser and handed to a UPGMA
*validator* (accepts every legal tie-breaking) together with the oracle distance matrix."""

import random

import numpy as np

from vf.oracles import newick, upgma
from vf.props import _cli

LEVEL = 'exploration'
RULE = ('cases = (set of 2..40 genomes / signatures incl. identical genomes (zero distances), all-equidistant sets (every merge a tie) and '
        'near-ties, label set incl. Newick-special characters and duplicates, input channel in {files, list file, signature file}, -k/-p '
        'given or default, -c); non-trivial = >=3 leaves; distinct = (channel, params, genome set) by hash')
ASSUMPTIONS = ['node height = distance from the node to its leaves = average-linkage distance of the two clusters it joins',
               'tolerance: 8 printed significant digits per branch length times the number of edges on a path, plus 1e-6 for float32->float64 averaging',
               '-0 branch lengths are accepted as non-negative']
REACH = ['gambit.cli.tree:tree_cmd', 'gambit.cluster:hclust', 'gambit.cluster:linkage_to_bio_tree']


def shards(tier, seed):
	n = 16 if tier == 'quick' else 48
	return [dict(name=f'tree-{i}', kind='tree', sub=i, nrounds=16 if tier == 'quick' else 60) for i in range(n)]


def check_tree(ctx, text, labels, D, w, what):
	try:
		root = newick.parse(text)
	except newick.NewickError as e:
		ctx.violation('not-one-newick-tree', f'{what}: stdout is not exactly one Newick tree: {e}; output starts {text[:120]!r}', w)
		return
	leaves = root.leaves()
	got = sorted((l.name or '') for l in leaves)
	if got != sorted(labels):
		ctx.violation('leaf-labels', f'{what}: leaves {got[:8]} expected {sorted(labels)[:8]} ({len(got)} vs {len(labels)})', w)
		return
	# every internal node binary, branch lengths non-negative
	stack = [root]
	nedges = 0
	while stack:
		n = stack.pop()
		if n.children and len(n.children) != 2:
			ctx.violation('not-binary', f'{what}: internal node with {len(n.children)} children', w)
			return
		if n is not root:
			nedges += 1
			if n.length is None:
				ctx.violation('missing-branch-length', f'{what}: node {n.name!r} has no branch length', w)
				return
			if n.length < 0:
				ctx.violation('negative-branch-length', f'{what}: branch length {n.length!r}', w)
				return
		stack.extend(n.children)
	# map leaves to matrix indices: duplicate labels are matched so that the tree validates if any assignment does (greedy by identical rows)
	by_label = {}
	for i, lab in enumerate(labels):
		by_label.setdefault(lab, []).append(i)
	ambiguous = any(len(v) > 1 for v in by_label.values())
	tol = 1e-6 + 2e-7 * max(len(labels), 4)
	if ambiguous:
		# duplicates: only identical-genome duplicates are generated, so any assignment is equivalent when their rows are equal
		pass
	# leaves that share a label cannot be told apart in the output: the tree is accepted if SOME assignment of those leaves to the
	# inputs with that label validates (all assignments are tried; groups are small)
	import itertools
	groups = [(lab, idxs) for lab, idxs in by_label.items() if len(idxs) > 1]
	nassign = 1
	for _, idxs in groups:
		for f in range(2, len(idxs) + 1):
			nassign *= f
	if nassign > 5000:
		groups_iter = [tuple(idxs for _, idxs in groups)]       # too many: identical-genome duplicates only (any assignment is equivalent)
	else:
		groups_iter = itertools.product(*[itertools.permutations(idxs) for _, idxs in groups])
	problems = None
	for choice in groups_iter:
		pools = {k: list(v) for k, v in by_label.items()}
		for (lab, _), perm in zip(groups, choice):
			pools[lab] = list(perm)
		leaf_index = {}
		for l in leaves:
			leaf_index[id(l)] = pools[l.name or ''].pop(0)
		problems = upgma.validate(root, leaf_index, D, tol)
		if not problems:
			break
	if ambiguous:
		ctx.count('trees_with_leaves_sharing_a_label')
	if problems:
		mech = 'not-ultrametric' if 'equidistant' in problems[0] else 'not-upgma'
		ctx.violation(mech, f'{what}: {problems[0]}', w)
		return
	ctx.count('trees_validated')
	ctx.count('merges_validated', len(labels) - 1)


def run_shard(sh, ctx):
	from vf import clidrv
	rng = random.Random(f'C17-{ctx.seed}-{sh["sub"]}')
	for rnd in range(sh['nrounds']):
		base = ctx.workdir / f'r{rnd}'
		base.mkdir()
		style = rng.choice(['mixed', 'mixed', 'identical-heavy', 'equidistant', 'two', 'many', 'empties', 'same-label'])
		n = {'two': 2, 'many': rng.randint(25, 40)}.get(style, rng.randint(3, 12))
		G = _cli.Genomes(rng, base / 'genomes', n, identical_pairs=style != 'equidistant', empty=style == 'mixed', related=style != 'equidistant')
		channel = rng.choice(['files', 'listfile', 'sigfile'])
		k, prefix = rng.choice([(5, 'AT'), (7, 'AT'), (8, 'ACG'), (11, 'ATGAC')])
		explicit = rng.random() < 0.6
		eff = (k, prefix) if (explicit or channel == 'sigfile') else (11, 'ATGAC')
		idx = list(range(n))
		if style == 'identical-heavy':
			idx = idx + [rng.randrange(n) for _ in range(3)]      # the same genome file passed several times (duplicate labels, zero distances)
		if style in ('mixed', 'many') and rng.random() < 0.5:
			for _ in range(rng.randint(1, 2)):
				idx.append(G.add_symlink(rng.choice(idx[:n])))       # a symbolic link named differently from its target: one more leaf, labelled by the link's name
			ctx.count('trees_with_symlinked_inputs')
		if style == 'same-label':
			# different genomes whose files yield the same label (same name in another directory / other extension): every leaf still
			# stands for its own genome
			for _ in range(rng.randint(1, 2)):
				idx.append(G.add_collision(rng.choice(idx[:n])))
			rng.shuffle(idx)
		if style == 'empties':
			# several genomes without any prefix occurrence: their signatures are empty and identical (distance 0 among them, 1 to the rest)
			from vf.oracles.fasta import write_fasta as _wf
			for j in range(rng.randint(2, 3)):
				pth = G.dir / f'noprefix_{j}.fasta'
				contigs = [b'C' * rng.randint(50, 300) + b'G' * rng.randint(0, 40)]
				_wf(pth, contigs)
				G.items.append(dict(path=pth, contigs=contigs, label=f'noprefix_{j}', name=pth.name))
				idx.append(len(G.items) - 1)
			rng.shuffle(idx)
		labels = [G.items[i]['label'] for i in idx]
		sigs_override = None
		if style == 'equidistant' and channel == 'sigfile':
			pass
		args = ['tree', '--no-progress']
		if channel == 'files':
			args += [G.items[i]['path'] for i in idx]
		elif channel == 'listfile':
			args += ['-l', G.listfile(idx, f'l{rnd}.txt'), '--ldir', G.dir]
			if rnd % 2 == 0:
				# files with the same relative names and OTHER genomes in the working directory: list entries belong to --ldir
				run_cwd = base / 'decoy_cwd'
				run_cwd.mkdir(exist_ok=True)
				from vf.oracles.fasta import write_fasta as _wfd
				for i_ in idx:
					pd = run_cwd / G.items[i_]['name']
					pd.parent.mkdir(parents=True, exist_ok=True)
					if not pd.exists():
						_wfd(pd, [bytes(rng.choice(b'ACGT') for _ in range(rng.randint(300, 900)))], gz=G.items[i_]['name'].endswith('.gz'))
				ctx.count('listfile_runs_with_same_named_decoys_in_cwd')
		else:
			if style == 'equidistant':
				# designed signatures: every pair at the same distance -> every merge is a tie
				from gambit.sigs.base import SignatureArray, AnnotatedSignatures, SignaturesMeta, dump_signatures
				from gambit.kmers import KmerSpec
				ks = KmerSpec(k, prefix)
				sets = [sorted({0, 1, 2, 10 + i}) for i in range(len(idx))]
				labels = _cli.hostile_ids(rng, len(idx))
				p = base / 'eq.gs'
				dump_signatures(str(p), AnnotatedSignatures(SignatureArray([np.array(s, dtype=ks.index_dtype) for s in sets], ks), labels, SignaturesMeta(id='x')))
				sigs_override = [set(s) for s in sets]
				args += ['-s', p]
			else:
				labels = _cli.hostile_ids(rng, len(idx)) if rng.random() < 0.7 else labels
				args += ['-s', G.sigfile(idx, k, prefix, f's{rnd}.gs', ids=labels)]
		if explicit and channel != 'sigfile':
			args += ['-k', k, '-p', prefix]
		cores = rng.choice([None, 1, 4])
		if cores:
			args += ['-c', cores]
		if rnd % 3 == 1:
			cf, *_ = clidrv.run_inproc(['tree', '--no-progress', '-k', 3, '-p', 'A', G.items[0]['path'], G.items[-1]['path']])   # rejected parameters
			ctx.count('failing_commands_interleaved', int(cf != 0))
		code, so, se, exc = clidrv.run_inproc(args, cwd=locals().get('run_cwd') if channel == 'listfile' and rnd % 2 == 0 else None)
		m = len(idx)
		if sigs_override is not None:
			from vf.oracles import jaccard as J
			D = [[float(np.uint32(J.expected_bits(*J.dist_su(sigs_override[a], sigs_override[b]))).view('f4')) for b in range(m)] for a in range(m)]
		else:
			D = [[G.dist(idx[a], idx[b], *eff) for b in range(m)] for a in range(m)]
		flat = sorted(D[a][b] for a in range(m) for b in range(a + 1, m))
		w = dict(style=style, channel=channel, n=m, params=list(eff), explicit=explicit, cores=cores, labels=labels[:10], stderr=se[-200:], exc=exc, newick=so[:600])
		ctx.case(('tree', style, channel, eff, [G.items[i]['name'] for i in idx], labels), nontrivial=m >= 3,
		         sample=dict(style=style, channel=channel, n=m, newick=so[:300]) if rnd < 1 else None)
		ctx.count(f'style:{style}'); ctx.count(f'channel:{channel}')
		if 0.0 in flat:
			ctx.count('inputs_with_zero_distance')
		if len(set(flat)) < len(flat):
			ctx.count('inputs_with_tied_distances')
		if code != 0:
			ctx.violation('command-fails', f'gambit tree exited {code}: {se[-200:]} {exc}', w)
			continue
		check_tree(ctx, so, labels, D, w, f'tree {channel}/{style}')


def finalize(merged, tier, seed, inconclusive):
	c = merged['counters']
	for n in ['trees_validated', 'style:equidistant', 'style:identical-heavy', 'style:two', 'style:many', 'style:empties', 'style:same-label', 'channel:files', 'channel:listfile', 'channel:sigfile',
	          'inputs_with_zero_distance', 'inputs_with_tied_distances']:
		if c.get(n, 0) == 0:
			inconclusive.append(f'class never observed: {n}')
	return dict(exhaustive=False)
