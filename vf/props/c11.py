"""C11 - every export format is a faithful image of the query results.

Monitor: QueryResults objects produced by real queries on synthetic databases are exported with the real
exporters (and `gambit query -f`), the text is parsed back with the stdlib csv / json parsers (archive: the
library's reader against the same database) and compared field by field with the results object read
through plain attribute access."""

import csv
import io
import json
import random

import numpy as np

LEVEL = 'exploration'
RULE = ('cases = (result set from a real query: strict / non-strict, no prediction, unreportable prediction, failed strict results with '
        'warnings, items without source file, hostile labels / taxon names / genome descriptions, float32 distances incl. 0 and 1) x '
        '{csv, json, archive} x {path, file object} x pretty; non-trivial = result set has >=1 item with a prediction or a warning; '
        'distinct = (world, query options, format) by hash')
ASSUMPTIONS = ['CSV cells are compared as text for strings and by value for numbers (closest.distance must parse to the same float32)',
               'bare carriage returns in names are a separate input class (known finding csv-bare-cr); LF and CRLF inside names stay under full check']
REACH = ['gambit.results:CSVResultsExporter.export', 'gambit.results:CSVResultsExporter.get_row', 'gambit.results:BaseJSONResultsExporter.export',
         'gambit.results:ResultsArchiveReader.read', 'gambit.results:ResultsArchiveReader._structure_taxon', 'gambit.results:ResultsArchiveReader._structure_genome']
HEADER = ['query', 'predicted.name', 'predicted.rank', 'predicted.ncbi_id', 'predicted.threshold', 'closest.distance', 'closest.description',
          'next.name', 'next.rank', 'next.ncbi_id', 'next.threshold']


def shards(tier, seed):
	n = 10 if tier == 'quick' else 40
	out = [dict(name=f'exp-{i}', kind='exp', sub=i, nworlds=15 if tier == 'quick' else 60, cr=(i % 4 == 3)) for i in range(n)]
	out.append(dict(name='cli', kind='cli', nworlds=3 if tier == 'quick' else 12))
	return out


def parse_csv_lf(text):
	"""RFC-4180 style parser that accepts only LF as record terminator (what the exporter writes). Used to tell the
	bare-CR mechanism apart from any other CSV defect."""
	rows, row, field, i, n, inq = [], [], [], 0, len(text), False
	while i < n:
		c = text[i]
		if inq:
			if c == '"':
				if i + 1 < n and text[i + 1] == '"':
					field.append('"'); i += 2; continue
				inq = False
			else:
				field.append(c)
		else:
			if c == '"' and not field:
				inq = True
			elif c == ',':
				row.append(''.join(field)); field = []
			elif c == '\n':
				row.append(''.join(field)); field = []
				rows.append(row); row = []
			else:
				field.append(c)
		i += 1
	if field or row:
		row.append(''.join(field)); rows.append(row)
	return rows


def has_unquoted_bare_cr(text):
	inq = False
	for i, c in enumerate(text):
		if c == '"':
			inq = not inq
		elif c == '\r' and not inq and not (i + 1 < len(text) and text[i + 1] == '\n'):
			return True
	return False


def expected_csv_row(item):
	"""Plain attribute access on the results object."""
	rt, cm, nt = item.report_taxon, item.classifier_result.closest_match, item.classifier_result.next_taxon

	def tx(t):
		return [None, None, None, None] if t is None else [t.name, t.rank, t.ncbi_id, t.distance_threshold]
	return [item.input.label] + tx(rt) + [cm.distance, cm.genome.description] + tx(nt)


def cell_matches(cell, value, col):
	if value is None:
		return cell == ''
	if col == 'closest.distance':
		try:
			return np.float32(cell).view('u4') == np.float32(value).view('u4')
		except ValueError:
			return False
	if isinstance(value, float):
		try:
			return float(cell) == value
		except ValueError:
			return False
	if isinstance(value, (int, np.integer)) and not isinstance(value, bool):
		return cell == str(int(value))
	return cell == str(value)


def check_csv(ctx, text, results, w, what):
	exp = [expected_csv_row(it) for it in results.items]
	try:
		rows = list(csv.reader(io.StringIO(text, newline='')))
	except csv.Error as e:
		rows = None
		err = str(e)

	def judge(rows_):
		if not rows_ or rows_[0] != HEADER:
			return f'header {rows_[0] if rows_ else None}'
		body = rows_[1:]
		if len(body) != len(exp):
			return f'{len(body)} data rows for {len(exp)} results'
		for r, (row, e) in enumerate(zip(body, exp)):
			if len(row) != len(HEADER):
				return f'row {r} has {len(row)} cells'
			for col, cell, v in zip(HEADER, row, e):
				if not cell_matches(cell, v, col):
					return f'row {r} column {col}: cell {cell!r} but the results object has {v!r}'
		return None
	problem = judge(rows) if rows is not None else f'stdlib csv reader fails: {err}'
	if problem is None:
		ctx.count('csv_ok')
		return
	# which mechanism? bare CR written unquoted, and otherwise a faithful image under an LF-only reader
	if has_unquoted_bare_cr(text) and judge(parse_csv_lf(text)) is None:
		ctx.violation('csv-bare-cr', f'{what}: a value containing a bare carriage return is written unquoted, the file does not parse back with a standard reader ({problem})', w)
	else:
		ctx.violation('csv-not-faithful', f'{what}: {problem}', w)


def taxon_json_ok(j, t):
	if t is None:
		return j is None
	return j is not None and j.get('key') == t.key and j.get('name') == t.name and j.get('id') == t.id and j.get('ncbi_id') == t.ncbi_id and j.get('rank') == t.rank \
		and j.get('distance_threshold') == t.distance_threshold


def check_json(ctx, text, results, w, what):
	try:
		data = json.loads(text)
	except ValueError as e:
		ctx.violation('json-invalid', f'{what}: not valid JSON: {e}', w)
		return
	items = data.get('items')
	if not isinstance(items, list) or len(items) != len(results.items):
		ctx.violation('json-not-faithful', f'{what}: {None if items is None else len(items)} items for {len(results.items)} results', w)
		return
	for r, (j, it) in enumerate(zip(items, results.items)):
		if j['query']['name'] != it.input.label:
			ctx.violation('json-not-faithful', f'{what}: item {r} label {j["query"]["name"]!r} expected {it.input.label!r}', w); return
		if not taxon_json_ok(j['predicted_taxon'], it.report_taxon):
			ctx.violation('json-not-faithful', f'{what}: item {r} predicted_taxon {j["predicted_taxon"]} vs reported taxon {it.report_taxon}', w); return
		if not taxon_json_ok(j['next_taxon'], it.classifier_result.next_taxon):
			ctx.violation('json-not-faithful', f'{what}: item {r} next_taxon {j["next_taxon"]} vs {it.classifier_result.next_taxon}', w); return
		cg = j['closest_genomes']
		if len(cg) != len(it.closest_genomes):
			ctx.violation('json-not-faithful', f'{what}: item {r} has {len(cg)} closest genomes, results object {len(it.closest_genomes)}', w); return
		for jm, m in zip(cg, it.closest_genomes):
			g = jm['genome']
			ok = g['key'] == m.genome.key and g['description'] == m.genome.description and g['organism'] == m.genome.organism and g['genbank_acc'] == m.genome.genbank_acc \
				and g['refseq_acc'] == m.genome.refseq_acc and g['ncbi_id'] == m.genome.ncbi_id and g['id'] == m.genome.genome_id \
				and [x['key'] for x in g['taxonomy']] == [t.key for t in m.genome.taxon.ancestors(incself=True)] \
				and np.float32(jm['distance']).view('u4') == np.float32(m.distance).view('u4') and float(jm['distance']) == float(m.distance) \
				and taxon_json_ok(jm['matched_taxon'], m.matched_taxon)
			if not ok:
				ctx.violation('json-not-faithful', f'{what}: item {r} closest genome {g.get("key")} d={jm.get("distance")} vs {m.genome.key} d={float(m.distance)!r}', w); return
	ctx.count('json_ok')


def walk_equal(a, b, path='results'):
	"""Explicit walk over two QueryResults; returns first difference or None."""
	if len(a.items) != len(b.items):
		return f'{path}.items length {len(a.items)} vs {len(b.items)}'
	for f in ('params', 'gambit_version', 'timestamp', 'extra'):
		if getattr(a, f) != getattr(b, f):
			return f'{path}.{f}: {getattr(a, f)!r} vs {getattr(b, f)!r}'
	if a.genomeset is not b.genomeset and (a.genomeset.key, a.genomeset.version) != (b.genomeset.key, b.genomeset.version):
		return f'{path}.genomeset'
	if a.signaturesmeta != b.signaturesmeta:
		return f'{path}.signaturesmeta: {a.signaturesmeta!r} vs {b.signaturesmeta!r}'

	def tk(t):
		return None if t is None else t.key

	def gm(x, y, p):
		if (x is None) != (y is None):
			return f'{p}: presence differs'
		if x is None:
			return None
		if x.genome.key != y.genome.key:
			return f'{p}.genome {x.genome.key} vs {y.genome.key}'
		if np.float32(x.distance).view('u4') != np.float32(y.distance).view('u4') or float(x.distance) != float(y.distance):
			return f'{p}.distance {float(x.distance)!r} vs {float(y.distance)!r}'
		if tk(x.matched_taxon) != tk(y.matched_taxon):
			return f'{p}.matched_taxon {tk(x.matched_taxon)} vs {tk(y.matched_taxon)}'
		return None
	for i, (x, y) in enumerate(zip(a.items, b.items)):
		p = f'{path}.items[{i}]'
		if x.input.label != y.input.label:
			return f'{p}.input.label {x.input.label!r} vs {y.input.label!r}'
		if (x.input.file is None) != (y.input.file is None) or (x.input.file is not None and (str(x.input.file.path), x.input.file.format, x.input.file.compression) != (str(y.input.file.path), y.input.file.format, y.input.file.compression)):
			return f'{p}.input.file {x.input.file} vs {y.input.file}'
		if tk(x.report_taxon) != tk(y.report_taxon):
			return f'{p}.report_taxon'
		cx, cy = x.classifier_result, y.classifier_result
		for f in ('success', 'error', 'warnings'):
			if getattr(cx, f) != getattr(cy, f):
				return f'{p}.classifier_result.{f}: {getattr(cx, f)!r} vs {getattr(cy, f)!r}'
		if tk(cx.predicted_taxon) != tk(cy.predicted_taxon) or tk(cx.next_taxon) != tk(cy.next_taxon):
			return f'{p}.classifier_result taxa'
		for f in ('primary_match', 'closest_match'):
			d = gm(getattr(cx, f), getattr(cy, f), f'{p}.classifier_result.{f}')
			if d:
				return d
		if len(x.closest_genomes) != len(y.closest_genomes):
			return f'{p}.closest_genomes length'
		for j, (m1, m2) in enumerate(zip(x.closest_genomes, y.closest_genomes)):
			d = gm(m1, m2, f'{p}.closest_genomes[{j}]')
			if d:
				return d
	return None


def features(results):
	f = set()
	for it in results.items:
		cr = it.classifier_result
		if cr.predicted_taxon is None:
			f.add('no-prediction')
		elif it.report_taxon is not cr.predicted_taxon:
			f.add('unreportable-predicted-taxon' if it.report_taxon is not None else 'prediction-without-any-reportable-ancestor')
		if not cr.success:
			f.add('failed-strict-result')
		if cr.warnings:
			f.add('warnings')
		if cr.primary_match is not None and cr.primary_match.genome is not cr.closest_match.genome:
			f.add('primary-not-closest')
		if it.input.file is None:
			f.add('no-source-file')
		else:
			f.add('with-source-file')
		if float(cr.closest_match.distance) in (0.0, 1.0):
			f.add(f'distance-{int(cr.closest_match.distance)}')
		if cr.next_taxon is None:
			f.add('no-next-taxon')
	return f


def char_classes(strings):
	cl = set()
	for s in strings:
		if s is None:
			continue
		for name, test in (('comma', ','), ('dquote', '"'), ('squote', "'"), ('LF', '\n'), ('CRLF', '\r\n'), ('tab', '\t')):
			if test in s:
				cl.add(name)
		if any(ord(c) > 0xFFFF for c in s):
			cl.add('non-BMP')
		elif any(ord(c) > 127 for c in s):
			cl.add('non-ASCII')
		if '\r' in s.replace('\r\n', ''):
			cl.add('bare-CR')
		if s != s.strip():
			cl.add('lead/trail-blank')
		if len(s) > 100:
			cl.add('long')
	return cl


def run_exp(sh, ctx):
	from vf import world as W
	from gambit.db import ReferenceDatabase
	from gambit.query import query, QueryParams, QueryInput
	from gambit.seq import SequenceFile
	from gambit.results import CSVResultsExporter, JSONResultsExporter, ResultsArchiveWriter, ResultsArchiveReader
	rng = random.Random(f'C11-{ctx.seed}-{sh["sub"]}')
	import gc as _gc
	shared_csv = CSVResultsExporter()      # one exporter object used for every result set of the run (the databases come and go)
	for wi in range(sh['nworlds']):
		w = W.designed_world(rng, conflict_bias=rng.random() < 0.5, cr_names=sh['cr'])
		two_sets = rng.random() < 0.3
		d = w.write_db(ctx.workdir / f'w{wi}', second_genomeset=two_sets)
		if two_sets:
			# the file holds a second genome set annotating the same genomes: build the database object through the API
			from gambit.db.sqla import file_sessionmaker
			from gambit.db.models import ReferenceGenomeSet
			from gambit.sigs.base import load_signatures
			session = file_sessionmaker(d / 'genomes.gdb')()
			gset = session.query(ReferenceGenomeSet).filter_by(key=w.gset['key']).one()
			db = ReferenceDatabase(gset, load_signatures(str(d / 'signatures.gs')))
			ctx.count('worlds_with_second_genome_set')
		else:
			db = ReferenceDatabase.load_from_dir(d)
		try:
			qs = [np.array(q['sig'], dtype=w.dtype) for q in w.queries]
			strict = rng.random() < 0.5
			params = QueryParams(classify_strict=strict, report_closest=rng.choice([0, 1, 3, 10]), chunksize=rng.choice([1, 1000, None]))     # None = no chunking (documented), 0 = no closest-genomes list
			ctx.count(f'params:chunksize={params.chunksize}'); ctx.count(f'params:report_closest={params.report_closest}')
			inputs = []
			for qi, q in enumerate(w.queries):
				c = rng.random()
				if c < 0.4:
					inputs.append(q['label'])
				elif c < 0.7:
					inputs.append(QueryInput(q['label'], SequenceFile(rng.choice([f'/some/dir/{qi} file.fasta', f'lists/../genomes/{qi}.fasta', f'./rel/./{qi}.fa', f'../up/{qi}.fasta', f'/abs/a/../../b/{qi}.fna', f'trailing/dir/../{qi} .fa ']), 'fasta', rng.choice([None, 'gzip', 'auto']))))
				else:
					inputs.append(QueryInput(q['label']))
			results = query(db, qs, params, inputs=inputs)
			results.extra = rng.choice([{}, {'note': 'ünï', 'n': [1, 2, {'a': None}]}])
			if rng.random() < 0.4:
				# the exporters are handed result objects: distances that print unusually (exponent notation, denormal, 9 significant
				# digits, just below 1) - any single-precision value is a legal distance as far as export is concerned
				edge = [1e-05, 3.2e-05, 9.999999e-05, 1e-07, 1.1754944e-38, 1.4e-45, 0.99999994, 0.33333334, 0.1, 5.9604645e-08]
				for it in results.items:
					ms = {id(m): m for m in it.closest_genomes + [it.classifier_result.closest_match] + ([it.classifier_result.primary_match] if it.classifier_result.primary_match else [])}
					for m in ms.values():
						m.distance = np.float32(rng.choice(edge))
				ctx.count('results_with_edge_distances')
			feats = features(results)
			for f in feats:
				ctx.count(f'feature:{f}')
			names = [it.input.label for it in results.items] + [t.name for t in w.taxa] + [g['description'] for g in w.genomes]
			for c in char_classes(names):
				ctx.count(f'chars:{c}')
			desc = dict(world=w.describe() if len(w.genomes) <= 6 else dict(n=len(w.genomes)), strict=strict, features=sorted(feats),
			            labels=[it.input.label for it in results.items][:6])
			nontrivial = any(it.classifier_result.predicted_taxon is not None or it.classifier_result.warnings for it in results.items)
			for fmt in ('csv', 'json', 'archive'):
				pretty = rng.random() < 0.5
				via = rng.choice(['path', 'fileobj'])
				exporter = CSVResultsExporter() if fmt == 'csv' else (JSONResultsExporter(pretty=pretty) if fmt == 'json' else ResultsArchiveWriter(pretty=pretty))
				if fmt == 'csv' and wi % 2 == 1:
					# another exporter with formatting options of its own (the documented format_opts) lives and writes in the same process:
					# the default exporter - the one made before it as well as one made afterwards - still writes the documented CSV
					opts = [dict(delimiter='\t'), dict(delimiter=';', lineterminator='\r\n'), dict(quoting=csv.QUOTE_ALL, quotechar="'"), dict(dialect='excel-tab')][(wi // 2) % 4]
					try:
						other = CSVResultsExporter(**opts)
						other.export(io.StringIO(newline=''), results)
						ctx.count('csv_exports_after_an_exporter_with_other_format_options')
					except Exception as e:
						ctx.count(f'custom_format_exporter_raised:{type(e).__name__}')
					if (wi // 2) % 2:
						exporter = CSVResultsExporter()
				path = ctx.workdir / f'w{wi}.{fmt}'
				try:
					if via == 'path':
						exporter.export(str(path), results)
						text = open(path, newline='').read()
					else:
						buf = io.StringIO(newline='')
						exporter.export(buf, results)
						text = buf.getvalue()
				except Exception as e:
					ctx.violation(f'{fmt}-export-raises', f'export raised {type(e).__name__}: {e}', desc)
					continue
				ctx.case(('exp', sh['sub'], wi, fmt, strict), nontrivial=nontrivial, sample=dict(fmt=fmt, strict=strict, features=sorted(feats), head=text[:200]) if wi == 0 else None)
				ctx.count(f'format:{fmt}'); ctx.count(f'via:{via}'); ctx.count(f'pretty:{pretty}' if fmt != 'csv' else 'csv')
				ww = dict(desc, fmt=fmt, pretty=pretty, via=via)
				if fmt == 'csv':
					check_csv(ctx, text, results, ww, 'CSVResultsExporter')
					# the same exporter object as for all earlier result sets (whose databases were closed and whose objects are gone)
					try:
						buf2 = io.StringIO(newline='')
						shared_csv.export(buf2, results)
						ctx.count('csv_exports_with_an_exporter_used_for_earlier_result_sets', int(wi > 0))
						check_csv(ctx, buf2.getvalue(), results, dict(ww, exporter='one CSVResultsExporter object re-used for every result set of the run'), 'CSVResultsExporter (re-used object)')
					except Exception as e:
						ctx.violation('csv-export-raises', f'export with a re-used exporter raised {type(e).__name__}: {e}', ww)
				elif fmt == 'json':
					check_json(ctx, text, results, ww, 'JSONResultsExporter')
				else:
					try:
						json.loads(text)
						back = ResultsArchiveReader(db.session).read(io.StringIO(text))
					except Exception as e:
						ctx.violation('archive-read-raises', f'reading the archive back raised {type(e).__name__}: {e}', ww)
						continue
					diff = walk_equal(results, back)
					if diff or not (back == results):
						ctx.violation('archive-not-equal', f'archive read back differs: {diff or "== is False although the explicit walk found no difference"}', ww)
					else:
						ctx.count('archive_ok')
			if two_sets:
				# the same file holds a second genome set annotating the same genomes: results against BOTH sets are archived and read
				# back through ONE reader, in both orders (a reader serves many archives in a long-lived process)
				gset2 = session.query(ReferenceGenomeSet).filter_by(key='verif/other-set').one()
				db2 = ReferenceDatabase(gset2, db.signatures)
				results2 = query(db2, qs, QueryParams(report_closest=3), inputs=[q['label'] for q in w.queries])
				texts = []
				for res_ in (results, results2):
					buf = io.StringIO(newline='')
					ResultsArchiveWriter().export(buf, res_)
					texts.append(buf.getvalue())
				for order in ((0, 1), (1, 0), (0, 1, 0)):
					reader = ResultsArchiveReader(session)
					for which in order:
						ctx.evals += 1
						try:
							back = reader.read(io.StringIO(texts[which]))
						except Exception as e:
							ctx.violation('archive-read-raises', f'reading archive {which} with a reader that already read another archive raised {type(e).__name__}: {e}', dict(desc, order=list(order)))
							break
						orig = (results, results2)[which]
						diff = walk_equal(orig, back)
						if diff or not (back == orig):
							ctx.violation('archive-not-equal', f'one reader, archives of two genome sets read in order {list(order)}: archive {which} differs: {diff or "== is False"}', dict(desc, order=list(order), fmt='archive'))
							break
				ctx.count('two_genome_set_archives_through_one_reader')
		finally:
			db.signatures.close(); db.session.close()
			# the objects of this world are released before the next one is built (their memory - and their id() values - get re-used)
			results = back = db = w = item = None
			_gc.collect()


def run_cli(sh, ctx):
	"""The same three formats through `gambit query -f`, read back and compared with each other and the API results."""
	from vf import world as W, clidrv
	from gambit.db import ReferenceDatabase
	from gambit.query import query, QueryParams
	from gambit.results import ResultsArchiveReader
	rng = random.Random(f'C11-cli-{ctx.seed}')
	for wi in range(sh['nworlds']):
		w = W.designed_world(rng, conflict_bias=True)
		d = w.write_db(ctx.workdir / f'c{wi}')
		qs_file = w.write_query_sigs(ctx.workdir / f'c{wi}_q.gs')
		strict = rng.random() < 0.5
		outs = {}
		for fmt in ('csv', 'json', 'archive'):
			o = ctx.workdir / f'c{wi}.{fmt}'
			if wi % 2 == 1:
				o.write_text('x' * 200000 + '\n')      # a longer file of an earlier run at the output path: it is replaced, not overwritten in place
				ctx.count('cli_runs_with_existing_larger_output_file')
			code, so, se, exc = clidrv.run_inproc(['-d', d, 'query', '-f', fmt, '-o', o, '--no-progress', '-s', qs_file] + (['--strict'] if strict else []))
			ctx.count('cli_commands')
			if code != 0:
				ctx.violation('command-fails', f'gambit query -f {fmt} exited {code}: {se[-200:]} {exc}', dict(world=w.describe()))
				continue
			outs[fmt] = open(o, newline='').read()
		db = ReferenceDatabase.load_from_dir(d)
		try:
			res = query(db, [np.array(q['sig'], dtype=w.dtype) for q in w.queries], QueryParams(classify_strict=strict), inputs=[q['label'] for q in w.queries])
			ww = dict(world=w.describe(), strict=strict, cli=True)
			ctx.case(('cli', wi, strict), nontrivial=True)
			if 'csv' in outs:
				check_csv(ctx, outs['csv'], res, ww, 'gambit query -f csv')
			if 'json' in outs:
				check_json(ctx, outs['json'], res, ww, 'gambit query -f json')
			if 'archive' in outs:
				try:
					back = ResultsArchiveReader(db.session).read(io.StringIO(outs['archive']))
				except Exception as e:
					ctx.violation('archive-read-raises', f'CLI archive cannot be read back: {type(e).__name__}: {e}', ww)
				else:
					back.timestamp = res.timestamp
					diff = walk_equal(res, back)
					if diff:
						ctx.violation('archive-not-equal', f'CLI archive differs from the API results: {diff}', ww)
					else:
						ctx.count('archive_ok')
		finally:
			db.signatures.close(); db.session.close()


def run_shard(sh, ctx):
	{'exp': run_exp, 'cli': run_cli}[sh['kind']](sh, ctx)


def finalize(merged, tier, seed, inconclusive):
	c = merged['counters']
	if c.get('two_genome_set_archives_through_one_reader', 0) == 0:
		inconclusive.append('class never observed: two_genome_set_archives_through_one_reader')
	if c.get('params:chunksize=None', 0) == 0:
		inconclusive.append('class never observed: params:chunksize=None')
	if c.get('results_with_edge_distances', 0) == 0:
		inconclusive.append('class never observed: results_with_edge_distances')
	need = ['csv_exports_after_an_exporter_with_other_format_options', 'csv_exports_with_an_exporter_used_for_earlier_result_sets', 'format:csv', 'format:json', 'format:archive', 'csv_ok', 'json_ok', 'archive_ok', 'feature:no-prediction', 'feature:unreportable-predicted-taxon', 'feature:failed-strict-result',
	        'feature:warnings', 'feature:no-source-file', 'feature:with-source-file', 'feature:primary-not-closest', 'chars:comma', 'chars:dquote', 'chars:LF', 'chars:CRLF', 'chars:non-BMP',
	        'chars:bare-CR', 'worlds_with_second_genome_set', 'via:fileobj', 'via:path', 'pretty:True', 'cli_commands']
	for n in need:
		if c.get(n, 0) == 0:
			inconclusive.append(f'class never observed: {n}')
	return dict(exhaustive=False)
