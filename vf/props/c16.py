"""C16 - the distance-matrix command labels and fills every cell correctly.

Monitor: the CSV written by `gambit dist` is parsed with the stdlib reader and compared with the oracle
(reference-definition signatures + exact Jaccard) for every way of supplying either side."""

import csv
import io
import re
import random

import numpy as np

from vf.props import _cli

LEVEL = 'exploration'
RULE = ('cases = (query set, reference set, query channel in {-q, --ql/--qdir, --qs}, reference channel in {-r, --rl/--rdir, --rs, --use-db, '
        '--square}, -k/-p given or inferred, -c); 1..12 genomes per side incl. identical genomes and empty signatures, labels with '
        'CSV-special characters; non-trivial = matrix has >=1 cell; distinct = (channels, options, genome sets) by hash')
ASSUMPTIONS = ['a cell is correct when it is a 4-decimal numeral within 0.5e-4 (+1e-9) of the float32 oracle distance (accepts either tie rule for exact halves)',
               'with --use-db the references are all signatures stored in the database\'s signature file, in file order']
REACH = ['gambit.cli.dist:dist_cmd', 'gambit.cluster:dump_dmat_csv', 'gambit.cli.common:get_sequence_files', 'gambit.cli.common:strip_seq_file_ext']
CELL = re.compile(r'^[01]\.\d{4}$')
QCH = ['files', 'listfile', 'sigfile']
RCH = ['files', 'listfile', 'sigfile', 'use-db', 'square']


def shards(tier, seed):
	n = 8 if tier == 'quick' else 32
	return [dict(name=f'dist-{i}', kind='dist', sub=i, nrounds=2 if tier == 'quick' else 8) for i in range(n)]


def parse_matrix(text):
	rows = list(csv.reader(io.StringIO(text, newline='')))
	if not rows:
		return None
	return rows[0], [r[0] if r else None for r in rows[1:]], [r[1:] for r in rows[1:]]


def check_matrix(ctx, text, qlabels, rlabels, dist_fn, w, what):
	pm = parse_matrix(text)
	if pm is None:
		ctx.violation('no-output', f'{what}: empty output', w)
		return None
	header, rowlabels, cells = pm
	if header != [''] + list(rlabels):
		ctx.violation('header-labels', f'{what}: header {header[:8]} expected {[""] + list(rlabels)[:7]}', w)
		return None
	if rowlabels != list(qlabels):
		ctx.violation('row-labels', f'{what}: row labels {rowlabels[:8]} expected {list(qlabels)[:8]}', w)
		return None
	for a, row in enumerate(cells):
		if len(row) != len(rlabels):
			ctx.violation('shape', f'{what}: row {a} has {len(row)} cells for {len(rlabels)} references', w)
			return None
		for b, cell in enumerate(row):
			d = dist_fn(a, b)
			ctx.evals += 1
			if not CELL.match(cell):
				ctx.violation('cell-format', f'{what}: cell ({a},{b}) = {cell!r} is not a 4-decimal numeral', w)
				return None
			if abs(float(cell) - d) > 0.5e-4 + 1e-9:
				ctx.violation('cell-value', f'{what}: cell ({a},{b}) = {cell} but the distance of query {qlabels[a]!r} to reference {rlabels[b]!r} is {d!r}', w)
				return None
	return cells


def run_shard(sh, ctx):
	from vf import clidrv, world as W
	rng = random.Random(f'C16-{ctx.seed}-{sh["sub"]}')
	for rnd in range(sh['nrounds']):
		base = ctx.workdir / f'r{rnd}'
		base.mkdir()
		G = _cli.Genomes(rng, base / 'genomes', rng.randint(4, 14))
		# some inputs are symbolic links whose own name differs from their target's: the label comes from the name that was given
		for _ in range(rng.randint(1, 3)):
			G.add_symlink(rng.randrange(len(G.items)))
		ctx.count('genome_sets_with_symlinked_inputs')
		n = len(G.items)
		k, prefix = rng.choice([(5, 'AT'), (6, 'TA'), (7, 'AT'), (8, 'ACG'), (11, 'ATGAC')])
		# a database whose signature file holds some of the genomes (+ they are the reference set for --use-db)
		dbidx = rng.sample(range(n), rng.randint(1, min(n, 6)))
		w = W.World(k, prefix)
		W.gen_taxonomy(rng, w, nt=2, names='plain')
		for j, i in enumerate(dbidx):
			W.add_genome(w, rng, j, 0, G.sig(i, k, prefix), names_pool=['plain'])
		w.finalize()
		dbids = _cli.hostile_ids(rng, len(dbidx))
		for g, hid in zip(w.genomes, dbids):
			g['key'] = hid if hid else 'empty-id-replaced'
		dbdir = w.write_db(base / 'db', with_extra=False)
		dbids = [g['key'] for g in w.genomes]
		# the signature file of a database may hold MORE signatures than the genome table lists (in any order): with --use-db the
		# references are the signatures stored in that file, all of them, in file order
		db_file_idx, db_file_ids = list(dbidx), list(dbids)
		if rnd % 2 == 0:
			extra_items = [rng.randrange(n) for _ in range(rng.randint(1, 3))]
			entries = list(zip(dbidx, dbids)) + [(ei, f'not-in-genome-table/{t_}') for t_, ei in enumerate(extra_items)]
			rng.shuffle(entries)
			db_file_idx, db_file_ids = [e_[0] for e_ in entries], [e_[1] for e_ in entries]
			newsig = G.sigfile(db_file_idx, k, prefix, f'dbsigs_{rnd}.gs', ids=db_file_ids)
			import shutil as _sh
			_sh.move(str(newsig), str(dbdir / 'signatures.gs'))
			ctx.count('databases_whose_signature_file_holds_unlisted_signatures')
		# ---- same names, different genomes: a second directory holding other genomes under the SAME file names -------------------
		from vf.oracles import sigdef as S_, jaccard as J_
		from vf.oracles.fasta import write_fasta as wf_
		dir2 = base / 'genomes_v2'
		dir2.mkdir()
		twins = []
		for it in G.items:
			c2 = _cli.rand_genome(rng, base=it['contigs'], rate=0.1) if len(b''.join(it['contigs'])) > 50 else _cli.rand_genome(rng)
			wf_(dir2 / it['name'], c2, gz=it['name'].endswith('.gz'))
			twins.append(c2)
		for trial in range(2):
			idx = rng.sample(range(n), rng.randint(1, min(n, 6)))
			explicit = rng.random() < 0.5
			eff = (k, prefix) if explicit else (11, 'ATGAC')
			out = base / f'out_twins_{trial}.csv'
			if trial == 0:
				cmd = ['dist', '-o', out, '--no-progress'] + (['-k', k, '-p', prefix] if explicit else []) + sum([['-q', G.items[i]['path']] for i in idx], []) + sum([['-r', dir2 / G.items[i]['name']] for i in idx], [])
			else:
				lf = G.listfile(idx, f'twins_{rnd}.txt')
				cmd = ['dist', '-o', out, '--no-progress'] + (['-k', k, '-p', prefix] if explicit else []) + ['--ql', lf, '--qdir', G.dir, '--rl', lf, '--rdir', dir2]
			code, so, se, exc = clidrv.run_inproc(cmd)
			labels = [G.items[i]['label'] for i in idx]
			w_ = dict(case='same file names, different genomes on the two sides', args=[str(a) for a in cmd][:30], labels=labels, stderr=se[-200:], exc=exc)
			ctx.case(('twins', trial, eff, [G.items[i]['name'] for i in idx]), nontrivial=True)
			ctx.count('same_labels_different_genomes_runs')
			if code != 0:
				ctx.violation('command-fails', f'gambit dist exited {code}: {se[-200:]} {exc}', w_)
				continue

			def dtw(a, b):
				sa = set(S_.signature(eff[0], eff[1].encode(), G.items[idx[a]]['contigs']))
				sb = set(S_.signature(eff[0], eff[1].encode(), twins[idx[b]]))
				s_, u_ = J_.dist_su(sa, sb)
				return float(np.uint32(J_.expected_bits(s_, u_)).view('f4'))
			check_matrix(ctx, open(out, newline='').read(), labels, labels, dtw, w_, 'dist files/files with equal labels')
		code_, *_ = clidrv.run_inproc(['dist', '-o', base / 'fail.csv', '--no-progress', '-q', G.items[0]['path'], '--rs', base / 'does-not-exist.gs'])
		code2_, *_ = clidrv.run_inproc(['dist', '-o', base / 'fail2.csv', '--no-progress', '-k', k, '-q', G.items[0]['path'], '-r', G.items[0]['path']])
		ctx.count('failing_commands_interleaved', int(code_ != 0) + int(code2_ != 0))
		for qch in QCH:
			for rch in RCH:
				for trial in range(2 if sh['nrounds'] > 2 else 1):
					qidx = [rng.randrange(n) for _ in range(rng.randint(1, 8))] if rng.random() < 0.3 else rng.sample(range(n), rng.randint(1, min(n, 8)))
					ridx = rng.sample(range(n), rng.randint(1, min(n, 8)))
					explicit = rng.random() < 0.5
					cores = rng.choice([None, None, 1, 4, 16])
					out = base / f'out_{qch}_{rch}_{trial}.csv'
					args = []
					eff = (k, prefix)
					# ---- query side ----
					if qch == 'files':
						qargs = sum([['-q', G.items[i]['path']] for i in qidx], [])
						qlabels = [G.items[i]['label'] for i in qidx]
					elif qch == 'listfile':
						absolute = rng.random() < 0.3
						lf = G.listfile(qidx, f'ql_{rnd}_{rch}_{trial}.txt', absolute=absolute, blank_lines=True)
						qargs = ['--ql', lf] + (['--qdir', G.dir] if not absolute or rng.random() < 0.5 else ['--qdir', G.dir])
						qlabels = [G.items[i]['label'] for i in qidx]
					else:
						qids = _cli.hostile_ids(rng, len(qidx))
						qargs = ['--qs', G.sigfile(qidx, k, prefix, f'qs_{rnd}_{rch}_{trial}.gs', ids=qids)]
						qlabels = qids
					# ---- reference side ----
					pre = []
					if rch == 'files':
						rargs = sum([['-r', G.items[i]['path']] for i in ridx], [])
						rlabels = [G.items[i]['label'] for i in ridx]
					elif rch == 'listfile':
						lf = G.listfile(ridx, f'rl_{rnd}_{qch}_{trial}.txt')
						rargs = ['--rl', lf, '--rdir', G.dir]
						rlabels = [G.items[i]['label'] for i in ridx]
					elif rch == 'sigfile':
						rids = _cli.hostile_ids(rng, len(ridx))
						rargs = ['--rs', G.sigfile(ridx, k, prefix, f'rs_{rnd}_{qch}_{trial}.gs', ids=rids)]
						rlabels = rids
					elif rch == 'use-db':
						pre = ['-d', dbdir]
						rargs = ['--use-db']
						ridx, rlabels = db_file_idx, db_file_ids
					else:
						rargs = ['--square']
						ridx, rlabels = qidx, qlabels
					has_sigs = qch == 'sigfile' or rch in ('sigfile', 'use-db')
					if explicit or not has_sigs:
						if not has_sigs and not explicit:
							eff = (11, 'ATGAC')   # nothing given, nothing pre-computed: the documented defaults
						else:
							args += ['-k', k, '-p', prefix]
					cmd = pre + ['dist', '-o', out, '--no-progress'] + args + qargs + rargs + (['-c', cores] if cores else [])
					run_cwd = None
					if 'listfile' in (qch, rch) and trial == 0:
						# list entries are relative to --qdir / --rdir: same-named files with OTHER genomes in the working directory are decoys
						run_cwd = base / 'decoy_cwd'
						run_cwd.mkdir(exist_ok=True)
						from vf.oracles.fasta import write_fasta as _wfd
						for i_ in set((qidx if qch == 'listfile' else []) + (ridx if rch == 'listfile' else [])):
							pd = run_cwd / G.items[i_]['name']
							pd.parent.mkdir(parents=True, exist_ok=True)
							if not pd.exists() and not pd.is_symlink():
								_wfd(pd, [bytes(rng.choice(b'ACGT') for _ in range(rng.randint(300, 900)))], gz=G.items[i_]['name'].endswith('.gz'))
						ctx.count('listfile_runs_with_same_named_decoys_in_cwd')
					if (rnd + trial + len(qidx)) % 2 == 1:
						# the output path already holds the (much larger) matrix of an earlier run: the new table replaces it
						rows_ = [','.join(['old'] + [f'ref{j_}' for j_ in range(12)])] + [','.join([f'oldquery{i_}'] + ['0.1234'] * 12) for i_ in range(40)]
						out.write_text('\n'.join(rows_) + '\n')
						ctx.count('runs_with_existing_larger_output_file')
					code, so, se, exc = clidrv.run_inproc(cmd, cwd=run_cwd)
					w_ = dict(query_channel=qch, ref_channel=rch, k=eff[0], prefix=eff[1], explicit=explicit, cores=cores, qlabels=qlabels[:8], rlabels=rlabels[:8],
					          args=[str(a) for a in cmd][:40], stderr=se[-200:], exc=exc)
					ctx.case(('dist', qch, rch, eff, explicit, cores, [G.items[i]['name'] for i in qidx], [str(x) for x in rlabels]), nontrivial=True,
					         sample=dict(query_channel=qch, ref_channel=rch, params=list(eff), qlabels=qlabels[:4], rlabels=rlabels[:4]) if rnd == 0 and trial == 0 and qch == 'files' else None)
					ctx.count(f'channels:{qch}/{rch}'); ctx.count(f'params:{"explicit" if args else "inferred-or-default"}'); ctx.count(f'cores:{cores}')
					if code != 0:
						ctx.violation('command-fails', f'gambit dist exited {code}: {se[-200:]} {exc}', w_)
						continue
					if not out.exists():
						ctx.violation('no-output', 'exit 0 but no output file', w_)
						continue
					Qi, Ri = list(qidx), list(ridx)
					cells = check_matrix(ctx, open(out, newline='').read(), qlabels, rlabels, lambda a, b: G.dist(Qi[a], Ri[b], *eff), w_, f'dist {qch}/{rch}')
					if cells is None:
						continue
					if rch == 'square':
						m = len(qidx)
						for a in range(m):
							if cells[a][a] != '0.0000':
								ctx.violation('square-diagonal', f'--square diagonal cell ({a},{a}) = {cells[a][a]}', w_)
								break
							if any(cells[a][b] != cells[b][a] for b in range(m)):
								ctx.violation('square-asymmetric', f'--square matrix not symmetric in row {a}', w_)
								break
						# equals supplying the same genomes as both queries and references
						if qch == 'files':
							out2 = base / f'out_same_{trial}.csv'
							cmd2 = ['dist', '-o', out2, '--no-progress'] + args + qargs + sum([['-r', G.items[i]['path']] for i in qidx], [])
							code2, _, se2, exc2 = clidrv.run_inproc(cmd2)
							ctx.count('square_vs_both_sides')
							if code2 != 0 or open(out2, newline='').read() != open(out, newline='').read():
								ctx.violation('square-differs-from-both-sides', f'--square output differs from passing the same genomes as -q and -r (exit {code2})', w_)
					if len({G.items[i]['label'] for i in qidx}) < len(qidx):
						ctx.count('duplicate_labels')


def finalize(merged, tier, seed, inconclusive):
	c = merged['counters']
	for q in QCH:
		for r in RCH:
			if c.get(f'channels:{q}/{r}', 0) == 0:
				inconclusive.append(f'channel combination never run: {q}/{r}')
	for n in ['params:explicit', 'params:inferred-or-default', 'cores:16', 'cores:None', 'square_vs_both_sides', 'same_labels_different_genomes_runs', 'runs_with_existing_larger_output_file']:
		if c.get(n, 0) == 0:
			inconclusive.append(f'class never observed: {n}')
	return dict(exhaustive=False)
