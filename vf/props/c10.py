"""C10 - strict classification reports an order-independent consensus of all matches.

Monitor: consensus_taxon / classify(strict=True) on real (transient) ORM objects are compared with a
parent-pointer taxonomy model for every order of the same input."""

import itertools
import random

import numpy as np

from vf.oracles import taxonomy as TX
from vf import orm

LEVEL = 'exploration'
RULE = ('cases = (taxonomy forest, set of matched taxa, order of encounter); exhaustive: every rooted labelled forest on <=5 taxa '
        '(thorough: 6 taxa with matched sets up to 4) x every non-empty matched subset x every order; classify(strict=True) on every '
        'permutation of <=6 reference genomes for seeded forests biased to {species, its subspecies, sibling} conflicts; '
        'non-trivial = matched set has >=2 taxa; distinct = (forest, ordered matched tuple) by hash')
ASSUMPTIONS = ['oracle vf/oracles/taxonomy.py; a single-precision distance is compared with the double-precision threshold as real numbers (thresholds include 0.2, 0.7 and 0.9, distances their single-precision values)',
               'warnings are not judged when the prediction is None (the statement fixes only success=False + error there)',
               'any minimum-distance eligible genome is accepted as primary match']
REACH = ['gambit.classify:consensus_taxon', 'gambit.classify:find_matches', 'gambit.classify:classify', 'gambit.classify:matching_taxon']


def shards(tier, seed):
	out = []
	nparts = 16
	for p in range(nparts):
		out.append(dict(name=f'cons-n5-{p}', kind='cons', n=5, maxsub=5, part=p, nparts=nparts))
	out.append(dict(name='cons-small', kind='cons-small'))
	if tier == 'thorough':
		for p in range(64):
			out.append(dict(name=f'cons-n6-{p}', kind='cons', n=6, maxsub=4, part=p, nparts=64))
	n = 8 if tier == 'quick' else 32
	for i in range(n):
		out.append(dict(name=f'classify-{i}', kind='classify', sub=i, nworlds=60 if tier == 'quick' else 400))
	out.append(dict(name='e2e', kind='e2e', nworlds=2 if tier == 'quick' else 10))
	for s_ in out:
		if s_.get('kind') in ['classify', 'cons-small'] and not s_.get('sanitizer'):
			s_['contracts'] = ['C10']
	out.append(dict(name='suite-contracts', kind='suite-contracts', which=['C10'], tests=['tests/test_classify.py', 'tests/test_query.py']))
	return out


def check_consensus(ctx, gc, model, otaxa, par, subset_orders):
	"""subset_orders: iterable of tuples of indices (one matched set in a particular order)."""
	for order in subset_orders:
		exp, has = TX.strict_consensus([model[i] for i in order])
		got, others = gc.consensus_taxon([otaxa[i] for i in order])
		ctx.evals += 1
		gi = None if got is None else otaxa.index(got)
		ei = None if exp is None else exp.i
		if gi != ei:
			ctx.violation('consensus-wrong-or-order-dependent', f'forest parents={par} matched in order {order}: consensus T{gi} expected T{ei}',
			              dict(parents=list(par), order=list(order), got=gi, expected=ei))
			continue
		if got is not None:
			for i in order:
				if not TX.comparable(model[gi], model[i]):
					ctx.violation('consensus-not-comparable', f'consensus T{gi} neither ancestor nor descendant of matched T{i}', dict(parents=list(par), order=list(order)))


def run_cons(sh, ctx):
	import gambit.classify as gc
	n = sh['n']
	ctx.notes['exhaustive_scopes'] = [f'all rooted labelled forests on {n} taxa x all ordered matched tuples of <= {sh["maxsub"]} distinct taxa']
	for fi, par in enumerate(orm.forests(n)):
		if fi % sh['nparts'] != sh['part']:
			continue
		model = [TX.T(i) for i in range(n)]
		for i, p in enumerate(par):
			model[i].parent = None if p is None else model[p]
		otaxa = orm.make_taxa(model)
		ctx.count('forests')
		for r in range(1, sh['maxsub'] + 1):
			for sub in itertools.combinations(range(n), r):
				exp, _ = TX.strict_consensus([model[i] for i in sub])
				minimal = [m for m in sub if not any(o != m and TX.is_ancestor_or_self(model[m], model[o]) for o in sub)]
				conflict_with_deeper = len(minimal) >= 2 and len(sub) > len(minimal)
				if conflict_with_deeper:
					ctx.count('matched_sets_with_conflict_plus_descendant')
				ctx.case(hash((n, par, sub)) & 0xFFFFFFFFFFFFFFFF, nontrivial=r >= 2,
				         sample=dict(parents=list(par), matched=list(sub), consensus=None if exp is None else exp.i) if (conflict_with_deeper and fi % 97 == 0 and r == 3) else None)
				check_consensus(ctx, gc, model, otaxa, par, itertools.permutations(sub))
				ctx.count('orders', 1 if r == 1 else {2: 2, 3: 6, 4: 24, 5: 120, 6: 720}[r])
	# empty input
	if sh['part'] == 0:
		r = gc.consensus_taxon([])
		if r != (None, set()):
			ctx.violation('consensus-empty', f'consensus_taxon([]) = {r}', {})


def run_cons_small(sh, ctx):
	import gambit.classify as gc
	for n in (1, 2, 3, 4):
		for par in orm.forests(n):
			model = [TX.T(i) for i in range(n)]
			for i, p in enumerate(par):
				model[i].parent = None if p is None else model[p]
			otaxa = orm.make_taxa(model)
			ctx.count('forests')
			for r in range(1, n + 1):
				for sub in itertools.combinations(range(n), r):
					ctx.case(hash((n, par, sub)) & 0xFFFFFFFFFFFFFFFF, nontrivial=r >= 2)
					check_consensus(ctx, gc, model, otaxa, par, itertools.permutations(sub))
	# duplicates in the input (the same taxon matched through several genomes is collapsed by classify, but the function accepts any iterable)
	model = [TX.T(0), TX.T(1), TX.T(2), TX.T(3)]
	model[1].parent = model[0]; model[2].parent = model[1]; model[3].parent = model[0]
	otaxa = orm.make_taxa(model)
	for order in itertools.product(range(4), repeat=4):
		ctx.case(('dups', order), nontrivial=True)
		check_consensus(ctx, gc, model, otaxa, (None, 0, 1, 0), [order])


THRS = [None, 0.0, 0.125, 0.25, 0.5, 0.75, 1.0, 0.2, 0.7, 0.9]   # 0.2 / 0.7 / 0.9 are not single-precision values: float32(0.2) > 0.2, float32(0.7) < 0.7, float32(0.9) < 0.9
GRID = [0.0, 0.0625, 0.125, 0.2, 0.25, 0.4, 0.5, 0.7, 0.75, 0.9, 1.0]


def gen_world(rng):
	"""Seeded forest biased to three-level conflicts. -> (model taxa, genome taxon indices, dists float32)"""
	nt = rng.randint(2, 9)
	model = []
	for i in range(nt):
		parent = None if (i == 0 or rng.random() < 0.15) else model[rng.randrange(i)]
		model.append(TX.T(i, parent, rng.choice(THRS), rng.random() < 0.8))
	if rng.random() < 0.5 and nt >= 4:
		# species 1 under genus 0, subspecies 2 under 1, sibling species 3 under 0 - all with thresholds
		model[1].parent, model[2].parent, model[3].parent = model[0], model[1], model[0]
		model[0].parent = None
		model[0].thr, model[1].thr, model[2].thr, model[3].thr = rng.choice([0.75, None]), 0.5, 0.25, 0.5
	ng = rng.randint(1, 6)
	gt = [rng.randrange(nt) for _ in range(ng)]
	dists = np.array([rng.choice(GRID) for _ in range(ng)], dtype='f4')
	if rng.random() < 0.2:
		# thresholds not monotone along the lineage: the overall closest genome sits below the conflict's common ancestor but is only
		# covered by a taxon ABOVE it, while two farther genomes match in sibling taxa (the primary match must be one of those)
		model = [TX.T(0, None, rng.choice([0.5, 0.75, 0.9]), True), None, None, None, None]
		model[1] = TX.T(1, model[0], rng.choice([None, 0.0625]), rng.random() < 0.8)
		model[2] = TX.T(2, model[1], rng.choice([0.25, 0.4]), True)
		model[3] = TX.T(3, model[1], rng.choice([0.25, 0.4]), True)
		model[4] = TX.T(4, model[1], rng.choice([None, 0.0625, 0.125]), True)
		if rng.random() < 0.5:
			model.append(TX.T(5, None, 0.25, True))
		gt = [rng.choice([4, 1]), 2, 3] + ([rng.randrange(len(model))] if rng.random() < 0.5 else [])
		dists = np.array([0.2, rng.choice([0.2, 0.25]), 0.25] + ([rng.choice(GRID)] if len(gt) == 4 else []), dtype='f4')
		order = list(range(len(gt))); rng.shuffle(order)
		gt, dists = [gt[j] for j in order], dists[order]
	return model, gt, dists


def expected_strict(model, gt, dists):
	matched = {}
	for j, (ti, d) in enumerate(zip(gt, dists)):
		m = TX.matching(model[ti], float(d))
		if m is not None:
			matched.setdefault(m.i, []).append(j)
	if not matched:
		return dict(pred=None, success=True, matched=matched, has_error=False)
	cons, has = TX.strict_consensus([model[i] for i in matched])
	return dict(pred=None if cons is None else cons.i, success=has, matched=matched, has_error=not has)


def check_classify_strict(ctx, gc, model, otaxa, gt, dists, genomes, perm, w):
	"""Run classify(strict=True) with the reference genomes in order `perm`; compare with the model."""
	exp = expected_strict(model, gt, dists)
	g2 = [genomes[j] for j in perm]
	d2 = np.array([dists[j] for j in perm], dtype='f4')
	# the interpreter's warning filters are the host program's business (python -W ignore / -W error, PYTHONWARNINGS, a script that
	# silenced warnings): the classification result, its warnings list included, does not depend on them
	import warnings as _warnings
	fstate = ('as-is', 'ignore', 'error', 'as-is', 'once')[(ctx.evals + len(perm)) % 5]
	try:
		with _warnings.catch_warnings():
			if fstate != 'as-is':
				_warnings.simplefilter(fstate)
			res = gc.classify(g2, d2, strict=True)
	except Exception as e:
		ctx.violation('classify-raises', f'classify(strict=True) raised {type(e).__name__}: {e} (warning filters: {fstate})', dict(w, warning_filters=fstate))
		return None
	ctx.count(f'strict_calls_under_warning_filters:{fstate}')
	w = dict(w, warning_filters=fstate)
	ctx.evals += 1
	pi = None if res.predicted_taxon is None else otaxa.index(res.predicted_taxon)
	if pi != exp['pred']:
		ctx.violation('strict-prediction-wrong-or-order-dependent', f'order {list(perm)}: predicted T{pi} expected T{exp["pred"]}', w)
		return pi
	if bool(res.success) != exp['success'] or (res.error is not None) != exp['has_error']:
		ctx.violation('strict-success-flag', f'success={res.success} error={res.error!r} expected success={exp["success"]}', w)
	# closest match at minimum distance
	if float(res.closest_match.distance) != float(dists.min()) or float(dists[genomes.index(res.closest_match.genome)]) != float(dists.min()):
		ctx.violation('closest-not-minimum', f'closest distance {res.closest_match.distance} min {dists.min()}', w)
	if pi is not None:
		# comparable with every matched taxon
		for mi in exp['matched']:
			if not TX.comparable(model[pi], model[mi]):
				ctx.violation('consensus-not-comparable', f'predicted T{pi} not comparable with matched T{mi}', w)
		below = sorted(mi for mi in exp['matched'] if TX.strictly_below(model[mi], model[pi]))
		warned = any('inconsistent' in x for x in res.warnings)
		if warned != bool(below):
			ctx.violation('conflict-warning', f'inconsistent-taxa warning {"issued" if warned else "missing"} but matched taxa strictly below the prediction: {below}', w)
		elif warned:
			msg = [x for x in res.warnings if 'inconsistent' in x][0]
			for mi in below:
				if model[mi].name not in msg:
					ctx.violation('conflict-warning', f'warning does not name conflicting taxon {model[mi].name}: {msg}', w)
		# primary match: a nearest genome among those matched at or below the prediction
		elig = [j for mi, js in exp['matched'].items() if TX.is_ancestor_or_self(model[pi], model[mi]) for j in js]
		pm = res.primary_match
		if pm is None:
			ctx.violation('primary-match', 'prediction made but primary_match is None', w)
		else:
			pj = genomes.index(pm.genome)
			if pj not in elig or float(pm.distance) != float(min(dists[j] for j in elig)) or float(dists[pj]) != float(pm.distance):
				ctx.violation('primary-match', f'primary match genome {pj} d={pm.distance}; eligible {elig} min {min(dists[j] for j in elig)}', w)
			elif pm.matched_taxon is None or otaxa.index(pm.matched_taxon) != TX.matching(model[gt[pj]], float(dists[pj])).i:
				ctx.violation('primary-match', 'primary match carries the wrong matched taxon', w)
	else:
		if res.primary_match is not None:
			ctx.violation('primary-match', 'no prediction but primary_match is set', w)
	return pi


def run_classify(sh, ctx):
	import gambit.classify as gc
	rng = random.Random(f'C10-{ctx.seed}-{sh["sub"]}')
	for wi in range(sh['nworlds']):
		model, gt, dists = gen_world(rng)
		otaxa = orm.make_taxa(model)
		genomes = orm.make_genomes(otaxa, gt)
		exp = expected_strict(model, gt, dists)
		w = dict(parents=[None if t.parent is None else t.parent.i for t in model], thresholds=[t.thr for t in model], genome_taxa=gt, dists=[float(d) for d in dists])
		nm = len(exp['matched'])
		ctx.case(('cls', w['parents'], w['thresholds'], gt, w['dists']), nontrivial=nm >= 2,
		         sample=dict(w, expected_prediction=exp['pred'], matched=sorted(exp['matched'])) if wi < 2 and nm >= 2 else None)
		ctx.count(f'matched_taxa:{min(nm, 3)}{"+" if nm >= 3 else ""}')
		if exp['pred'] is not None:
			cj = int(np.argmin(dists)); mc = TX.matching(model[gt[cj]], float(dists[cj]))
			if mc is not None and TX.strictly_below(model[exp['pred']], mc):
				ctx.count('closest_genome_matched_only_above_the_prediction')
		if exp['has_error']:
			ctx.count('worlds_without_common_ancestor')
		if wi % 4 == 1 and len(gt) > 1:
			try:
				gc.classify(genomes, dists[:-1], strict=True)   # length mismatch: must not leave anything behind for the calls below
				ctx.count('mismatched_call_returned')
			except Exception:
				ctx.count('failing_calls_interleaved')
		preds = set()
		for perm in itertools.permutations(range(len(gt))):
			pi = check_classify_strict(ctx, gc, model, otaxa, gt, dists, genomes, perm, dict(w, order=list(perm)))
			preds.add(pi)
			ctx.count('classify_orders')
		if len(preds) > 1:
			ctx.count('worlds_with_order_dependent_prediction')


def run_e2e(sh, ctx):
	"""gambit query --strict -f archive on worlds, with the reference signature file order permuted between runs."""
	from vf import world as W
	rng = random.Random(f'C10-e2e-{ctx.seed}')
	for wi in range(sh['nworlds']):
		wd = W.designed_world(rng, ctx.workdir / f'w{wi}', conflict_bias=True)
		base = None
		for rep in range(3):
			order = list(range(len(wd.genomes)))
			if rep:
				rng.shuffle(order)
			dbdir = wd.write_db(ctx.workdir / f'w{wi}_r{rep}', sig_order=order)
			res = W.run_query_archive(dbdir, wd, strict=True)
			ctx.count('e2e_commands')
			if res is None:
				ctx.violation('e2e-fails', 'gambit query --strict -f archive failed', dict(world=wd.describe()))
				break
			summary = [(it['predicted'], it['success']) for it in res]
			exp = [wd.expected_strict(qi) for qi in range(len(wd.queries))]
			ctx.case(('e2e', wi, rep, order), nontrivial=True, sample=dict(sig_order=order, predictions=summary) if wi == 0 and rep == 1 else None)
			for qi, (s, e) in enumerate(zip(summary, exp)):
				if s[0] != e['pred_key'] or s[1] != e['success']:
					ctx.violation('strict-prediction-wrong-or-order-dependent', f'e2e query {qi}: {s} expected {(e["pred_key"], e["success"])} with signature order {order}', dict(world=wd.describe(), order=order))
			if base is None:
				base = summary
			elif summary != base:
				ctx.violation('strict-prediction-wrong-or-order-dependent', f'e2e predictions differ between reference orders: {base} vs {summary}', dict(world=wd.describe(), order=order))


def run_shard(sh, ctx):
	{'cons': run_cons, 'cons-small': run_cons_small, 'classify': run_classify, 'e2e': run_e2e}[sh['kind']](sh, ctx)


def finalize(merged, tier, seed, inconclusive):
	c = merged['counters']
	for n in ['forests', 'matched_sets_with_conflict_plus_descendant', 'classify_orders', 'worlds_without_common_ancestor', 'matched_taxa:3+', 'e2e_commands', 'strict_calls_under_warning_filters:ignore', 'strict_calls_under_warning_filters:error']:
		if c.get(n, 0) == 0:
			inconclusive.append(f'class never observed: {n}')
	return dict(exhaustive=True, orders_that_disagree=int(c.get('worlds_with_order_dependent_prediction', 0)),
	            exhaustive_note='cons-* shards enumerate every forest, matched subset and order in their scope; classify shards enumerate every permutation of each seeded world')
