"""C03 - default classification follows the closest genome's lineage and thresholds.

Monitor: classify() on transient ORM objects and query()/`gambit query` on synthetic databases are
compared with the parent-pointer taxonomy model; monotonicity is checked on the real outputs."""

import csv
import io
import itertools
import random

import numpy as np

from vf.oracles import taxonomy as TX
from vf import orm

LEVEL = 'exploration'
RULE = ('cases = (lineage/forest with thresholds and report flags, genome placement, distance vector); exhaustive: every lineage of depth '
        '<=5 (thorough 6) x thresholds in {None,.25,.5,.75}^L x report flags 2^L x a distance grid containing every threshold exactly and '
        'its float32 neighbours; random forests up to depth 8 / 60 taxa with ties for the minimum; end-to-end query() and gambit query '
        '(csv/json/archive) on synthetic databases with distances equal to thresholds; non-trivial = some taxon carries a threshold; '
        'distinct = full case by hash')
ASSUMPTIONS = ['oracle vf/oracles/taxonomy.py', 'a single-precision distance is compared with the stored double-precision threshold as real numbers (0.2 is smaller than float32(0.2) = 0.200000003): that is the statement, and what NumPy 1.26 does for np.float32 <= float',
               'any genome at the minimum distance is accepted as "the closest match" here (the deterministic tie rule is C09)']
REACH = ['gambit.classify:matching_taxon', 'gambit.classify:GenomeMatch.next_taxon', 'gambit.classify:classify', 'gambit.db.models:reportable_taxon',
         'gambit.query:get_result_item', 'gambit.query:query']

THRS = [None, 0.25, 0.5, 0.75]
f32 = lambda x: float(np.float32(x))
F64_THRS = [0.1, 0.3, 0.6, 0.7, 0.9]       # doubles that are not single-precision values: float32(t) is above t for 0.1 0.3 0.6 and below it for 0.7 0.9
F64_GRID = sorted({f32(t) for t in F64_THRS} | {f32(np.nextafter(np.float32(t), np.float32(s))) for t in F64_THRS for s in (0, 2)} | {0.0, 0.5, 1.0})
GRID = sorted({0.0, 1.0, 0.1, 0.6, 0.9} | {f32(t) for t in (0.25, 0.5, 0.75)} |
              {f32(np.nextafter(np.float32(t), np.float32(s))) for t in (0.25, 0.5, 0.75) for s in (0, 2)})


def shards(tier, seed):
	out = []
	Lmax = 5 if tier == 'quick' else 6
	for L in range(1, Lmax + 1):
		nparts = 1 if L < 4 else (4 if L == 4 else (16 if L == 5 else 64))
		for p in range(nparts):
			out.append(dict(name=f'lineage-L{L}-{p}', kind='lineage', L=L, part=p, nparts=nparts))
	for L in (1, 2, 3, 4):
		out.append(dict(name=f'lineage-edge-L{L}', kind='lineage', L=L, part=0, nparts=1, thrs=[None, 0.0, 0.25, 1.0, 1.5]))
	for L in (1, 2, 3):
		out.append(dict(name=f'lineage-f64-L{L}', kind='lineage', L=L, part=0, nparts=1, thrs=[None] + F64_THRS, grid=F64_GRID))
	n = 6 if tier == 'quick' else 32
	for i in range(n):
		out.append(dict(name=f'forest-{i}', kind='forest', sub=i, n=400 if tier == 'quick' else 3000))
	n = 4 if tier == 'quick' else 16
	for i in range(n):
		out.append(dict(name=f'e2e-{i}', kind='e2e', sub=i, nworlds=4 if tier == 'quick' else 20))
	for s_ in out:
		if s_.get('kind') in ['forest', 'e2e'] and not s_.get('sanitizer'):
			s_['contracts'] = ['C03']
	out.append(dict(name='suite-contracts', kind='suite-contracts', which=['C03'], tests=['tests/test_classify.py', 'tests/test_query.py']))
	return out


def idx(otaxa, t):
	return None if t is None else otaxa.index(t)


def mi(t):
	return None if t is None else t.i


def check_result(ctx, res, report, model, otaxa, gt, dists, genomes, w):
	"""res: ClassifierResult (non-strict), report: report taxon object."""
	dmin = float(dists.min())
	cj = genomes.index(res.closest_match.genome)
	if float(dists[cj]) != dmin or float(res.closest_match.distance) != dmin:
		ctx.violation('closest-not-minimum', f'closest genome {cj} at {dists[cj]} / reported {res.closest_match.distance}, minimum {dmin}', w)
		return None
	t = model[gt[cj]]
	pred, nxt = TX.matching(t, dmin), TX.next_taxon(t, dmin)
	gp = idx(otaxa, res.predicted_taxon)
	if gp != mi(pred):
		ctx.violation('prediction-wrong', f'predicted T{gp} expected T{mi(pred)} (closest genome on T{t.i}, d={dmin!r})', w)
		return gp
	if idx(otaxa, res.closest_match.matched_taxon) != mi(pred):
		ctx.violation('prediction-wrong', 'closest_match.matched_taxon differs from the prediction', w)
	if (res.primary_match is not None) != (pred is not None) or (res.primary_match is not None and res.primary_match.genome is not res.closest_match.genome):
		ctx.violation('primary-match', f'primary match {"set" if res.primary_match is not None else "absent"} although prediction is T{mi(pred)}', w)
	gn = idx(otaxa, res.next_taxon)
	if gn != mi(nxt):
		mech = 'next-taxon-without-threshold' if (gn is not None and model[gn].thr is None) else 'next-taxon-wrong'
		ctx.violation(mech, f'next taxon T{gn} (thr {None if gn is None else model[gn].thr}) expected T{mi(nxt)}; lineage thresholds {[x.thr for x in TX.lineage(t)]}, d={dmin!r}, predicted T{mi(pred)}', w)
	gr = idx(otaxa, report)
	if gr != mi(TX.reportable(pred)):
		ctx.violation('report-taxon-wrong', f'report taxon T{gr} expected T{mi(TX.reportable(pred))}', w)
	if not res.success or res.error is not None:
		ctx.violation('nonstrict-flags', f'success={res.success} error={res.error}', w)
	return gp


def run_lineage(sh, ctx):
	import gambit.classify as gc
	from gambit.db import reportable_taxon
	L = sh['L']
	ctx.notes['exhaustive_scopes'] = [f'lineages of depth {L}: thresholds {THRS}^{L} x report flags 2^{L} x {len(GRID)} distances']
	n = 0
	for thrs in itertools.product(sh.get('thrs', THRS), repeat=L):
		n += 1
		if n % sh['nparts'] != sh['part']:
			continue
		for reps in itertools.product([True, False], repeat=L):
			# model[0] = genome's own taxon (leaf of the chain), model[L-1] = root
			model = [TX.T(i, None, thrs[i], reps[i]) for i in range(L)]
			for i in range(L - 1):
				model[i].parent = model[i + 1]
			otaxa = orm.make_taxa(model)
			genomes = orm.make_genomes(otaxa, [0])
			prev = 'start'
			w0 = dict(thresholds_leaf_to_root=list(thrs), report_flags=list(reps))
			for d in (sh['grid'] if 'grid' in sh else GRID if 'thrs' not in sh else [0.0, f32(np.nextafter(np.float32(0), np.float32(1))), 0.1, 0.25, 0.9, f32(np.nextafter(np.float32(1), np.float32(0))), 1.0]):
				dists = np.array([d], dtype='f4')
				res = gc.classify(genomes, dists)
				rep = reportable_taxon(res.predicted_taxon)
				ctx.case(hash((L, tuple(-1.0 if t is None else t for t in thrs), reps, d)) & 0xFFFFFFFFFFFFFFFF, nontrivial=any(x is not None for x in thrs),
				         sample=dict(w0, d=d, predicted=idx(otaxa, res.predicted_taxon), next=idx(otaxa, res.next_taxon)) if (n % 211 == 0 and d == 0.5 and reps[0]) else None)
				gp = check_result(ctx, res, rep, model, otaxa, [0], dists, genomes, dict(w0, d=d))
				# monotonicity on the real outputs: increasing d keeps or coarsens
				if prev != 'start':
					ok = gp is None or (prev is not None and TX.is_ancestor_or_self(model[gp], model[prev]))
					if not ok:
						ctx.violation('not-monotone', f'prediction T{prev} at smaller distance became T{gp} at d={d!r}', dict(w0, d=d))
				prev = gp
				if d in (0.25, 0.5, 0.75) and d in thrs:
					ctx.count('distance_exactly_on_threshold')
				if 'grid' in sh and any(t is not None and t != d and f32(t) == d for t in thrs):
					ctx.count('distance_is_the_single_precision_value_of_a_threshold')
			if thrs[0] is None:
				ctx.count('lineages_with_thresholdless_leaf')
			ctx.count('lineages')


def gen_forest(rng):
	nt = rng.randint(1, 60 if rng.random() < 0.2 else 12)
	model = []
	deep = rng.random() < 0.3
	for i in range(nt):
		if i == 0 or rng.random() < 0.1:
			parent = None
		else:
			parent = model[i - 1] if deep and rng.random() < 0.8 else model[rng.randrange(i)]
		model.append(TX.T(i, parent, rng.choice(THRS + F64_THRS + [f32(rng.random())]), rng.random() < 0.75))
	ng = rng.randint(1, 20)
	gt = [rng.randrange(nt) for _ in range(ng)]
	base = [rng.choice(GRID + F64_GRID + [f32(rng.random()) for _ in range(3)]) for _ in range(ng)]
	if ng > 1 and rng.random() < 0.5:
		m = min(base)
		for _ in range(rng.randint(1, 3)):
			base[rng.randrange(ng)] = m   # ties for the minimum
	return model, gt, np.array(base, dtype='f4')


def run_forest(sh, ctx):
	import gambit.classify as gc
	from gambit.db import reportable_taxon
	rng = random.Random(f'C03-{ctx.seed}-{sh["sub"]}')
	for i in range(sh['n']):
		model, gt, dists = gen_forest(rng)
		if i % 199 == 7:
			# a lineage deeper than the interpreter's recursion limit (thresholds sparse and not monotone, genomes at any level)
			L = rng.randint(1100, 1600)
			model = [TX.T(j, None, rng.choice([None, None, None] + THRS + F64_THRS), rng.random() < 0.5) for j in range(L)]
			for j in range(L - 1):
				model[j].parent = model[j + 1]
			gt = [rng.randrange(L) for _ in range(len(gt))]
			ctx.count('lineages_deeper_than_recursion_limit')
		ftype = ('bool', 'numpy', 'int')[i % 3]
		otaxa = orm.make_taxa(model, flags=ftype)
		ctx.count(f'forest_report_flags_given_as:{ftype}')
		genomes = orm.make_genomes(otaxa, gt)
		w = dict(parents=[mi(t.parent) for t in model], thresholds=[t.thr for t in model], report=[t.report for t in model], genome_taxa=gt, dists=[float(d) for d in dists], report_flag_type=ftype)
		res = gc.classify(genomes, dists)
		ctx.case(('forest', w['parents'], w['thresholds'], gt, w['dists']), nontrivial=any(t.thr is not None for t in model), sample=w if i < 1 else None)
		if (dists == dists.min()).sum() > 1:
			ctx.count('tied_minimum')
		ctx.seen('depths', max(len(TX.lineage(t)) for t in model))
		check_result(ctx, res, reportable_taxon(res.predicted_taxon), model, otaxa, gt, dists, genomes, w)
		# monotone in a uniform shift of the closest genome's distance
		cj = genomes.index(res.closest_match.genome)
		prev = 'start'
		for d in GRID:
			r2 = gc.classify([genomes[cj]], np.array([d], dtype='f4'))
			gp = idx(otaxa, r2.predicted_taxon)
			ctx.evals += 1
			if prev != 'start' and not (gp is None or (prev is not None and TX.is_ancestor_or_self(model[gp], model[prev]))):
				ctx.violation('not-monotone', f'T{prev} -> T{gp} at d={d!r}', w)
			prev = gp


def run_e2e(sh, ctx):
	"""query() and `gambit query` (csv, json, archive) on designed worlds."""
	from vf import world as W, clidrv
	from gambit.db import ReferenceDatabase
	from gambit.query import query
	from gambit.sigs.base import load_signatures
	import json
	rng = random.Random(f'C03-e2e-{ctx.seed}-{sh["sub"]}')
	for wi in range(sh['nworlds']):
		w = W.designed_world(rng)
		if wi % 2 == 0:
			# constructed, not left to the draw: the taxon that must be reported as 'next' is one the database marks as not reportable
			# (a hidden sub-group directly below the prediction) - 'next' is defined by thresholds only
			for qi in range(len(w.queries)):
				ex = w.expected_nonstrict(qi)
				for gi in ex['closest_candidates']:
					nx = ex['per'][gi]['next']
					if nx is not None and qi % 2 == 0:
						nx.report = False
		tie_made = False
		if wi % 2 == 0 and len(w.genomes) >= 3:      # even worlds are the ones queried with report_closest 1 or 3 below
			# constructed, not left to the draw: an exact tie at the minimum between genomes of DIFFERENT lineages (copies of the closest
			# genome's signature filed under unrelated taxa), with more genomes than the caller's report_closest
			ex0 = w.expected_nonstrict(0)
			g0 = ex0['closest_candidates'][0]
			t0 = w.taxa[w.genomes[g0]['taxon']]
			made = 0
			for gj, g in enumerate(w.genomes):
				tj = w.taxa[g['taxon']]
				if gj != g0 and not TX.is_ancestor_or_self(tj, t0) and not TX.is_ancestor_or_self(t0, tj) and (made == 0 or rng.random() < 0.5):
					g['sig'] = list(w.genomes[g0]['sig']); g['sigset'] = set(g['sig'])
					made += 1
			tie_made = bool(made)
			if made:
				w._dist_cache = {}
				ctx.count('e2e_worlds_with_constructed_tie_between_lineages')
		d = w.write_db(ctx.workdir / f'w{wi}')
		qs = w.write_query_sigs(ctx.workdir / f'w{wi}_q.gs')
		desc = w.describe()
		# ---- API ----
		db = ReferenceDatabase.load_from_dir(d)
		try:
			qsigs = load_signatures(str(qs))
			# history in this process: earlier calls asked for OTHER settings - as keyword arguments, and through a params object the
			# caller keeps and re-uses; the call judged below asks for nothing, i.e. the documented default (non-strict) mode
			from gambit.query import QueryParams
			mine = QueryParams(report_closest=[1, 2, 3, 1][wi % 4])      # fewer list entries than genomes tied at the minimum: the list must not decide which genome is 'the closest match'
			style = ['keywords', 'params-object', 'both-then-default', 'none'][wi % 4]
			try:
				if style in ('keywords', 'both-then-default'):
					query(db, qsigs, classify_strict=True, report_closest=1, chunksize=3)
				if style in ('params-object', 'both-then-default'):
					query(db, qsigs, QueryParams(classify_strict=True))
					query(db, qsigs, mine)
			except Exception as e:
				ctx.count(f'preceding_calls_raised:{type(e).__name__}')
			ctx.count(f'preceding_calls:{style}')
			if (mine.classify_strict, mine.report_closest) != (False, [1, 2, 3, 1][wi % 4]):
				ctx.count('callers_params_object_changed')
			results = query(db, qsigs, inputs=[q['label'] for q in w.queries]) if wi % 2 else query(db, qsigs, mine, inputs=[q['label'] for q in w.queries])
			# worlds with a constructed tie between lineages are also queried with every small list length (which of the tied genomes a
			# partial sort puts first is its own business - the closest MATCH must stay consistent with the prediction for each)
			all_results = [results] + ([query(db, qsigs, QueryParams(report_closest=N_), inputs=[q['label'] for q in w.queries]) for N_ in (1, 2, 3, 4) if N_ < len(w.genomes)] if tie_made else [])
			for results in all_results:
				key2t = {info['key']: t for t, info in zip(w.taxa, w.tinfo)}
				for qi, item in enumerate(results.items):
					exp = w.expected_nonstrict(qi)
					cr = item.classifier_result
					ck = cr.closest_match.genome.key
					cand = {w.genomes[gi]['key']: gi for gi in exp['closest_candidates']}
					ctx.case(('e2e-api', wi, sh['sub'], qi), nontrivial=True)
					ctx.count('e2e_api_queries')
					ww = dict(world=desc, query=qi)
					if ck not in cand or float(cr.closest_match.distance) != exp['dmin']:
						ctx.violation('closest-not-minimum', f'API: closest {ck} d={cr.closest_match.distance!r}; minimum {exp["dmin"]!r} at {sorted(cand)}', ww)
						continue
					e = exp['per'][cand[ck]]
					got = dict(pred=None if cr.predicted_taxon is None else cr.predicted_taxon.key, next=None if cr.next_taxon is None else cr.next_taxon.key,
					           report=None if item.report_taxon is None else item.report_taxon.key)
					want = dict(pred=None if e['pred'] is None else w.tinfo[e['pred'].i]['key'], next=None if e['next'] is None else w.tinfo[e['next'].i]['key'],
					            report=None if e['report'] is None else w.tinfo[e['report'].i]['key'])
					if exp['dmin'] in [t.thr for t in w.taxa]:
						ctx.count('e2e_distance_exactly_on_a_threshold')
					if e['next'] is not None and not e['next'].report:
						ctx.count('e2e_next_taxon_is_a_hidden_one')
					for f in ('pred', 'next', 'report'):
						if got[f] != want[f]:
							mech = {'pred': 'prediction-wrong', 'report': 'report-taxon-wrong'}.get(f) or ('next-taxon-without-threshold' if got[f] and key2t[got[f]].thr is None else 'next-taxon-wrong')
							ctx.violation(mech, f'API: {f} = {got[f]} expected {want[f]} (closest {ck}, d={exp["dmin"]!r})', ww)
					if (cr.primary_match is not None) != (want['pred'] is not None):
						ctx.violation('primary-match', 'API: primary match presence differs from prediction presence', ww)
		finally:
			db.signatures.close()
			db.session.close()
		# ---- CLI csv ----
		out = ctx.workdir / f'w{wi}.csv'
		code, so, se, exc = clidrv.run_inproc(['-d', d, 'query', '-o', out, '--no-progress', '-s', qs])
		ctx.count('e2e_cli_commands')
		if code != 0:
			ctx.violation('cli-fails', f'gambit query exited {code}: {se[-200:]} {exc}', dict(world=desc))
			continue
		try:
			rows = list(csv.DictReader(io.StringIO(open(out, newline='').read(), newline='')))
		except Exception as e:
			ctx.count('csv_unparseable')   # judged by C11
			continue
		if len(rows) != len(w.queries):
			continue  # judged by C08 / C11 (row structure); here only content of well-formed rows
		name2t = {}
		for qi, row in enumerate(rows):
			exp = w.expected_nonstrict(qi)
			ctx.evals += 1
			# accept any tied candidate
			ok = False
			for gi in exp['closest_candidates']:
				e = exp['per'][gi]
				rep, nxt = e['report'], e['next']
				want = ('' if rep is None else rep.name, '' if rep is None or rep.thr is None else repr(rep.thr), '' if nxt is None else nxt.name, '' if nxt is None or nxt.thr is None else repr(nxt.thr))
				got = (row['predicted.name'], row['predicted.threshold'], row['next.name'], row['next.threshold'])
				if got == want and float(np.float32(row['closest.distance'])) == exp['dmin']:
					ok = True
			if not ok and not any('\r' in (t.name or '') for t in w.taxa):
				ctx.violation('csv-columns-disagree-with-model', f'CSV row {qi}: predicted={row["predicted.name"]!r}/{row["predicted.threshold"]} next={row["next.name"]!r}/{row["next.threshold"]} d={row["closest.distance"]}; '
				              f'model expects one of {[(mi(exp["per"][g]["report"]), mi(exp["per"][g]["next"])) for g in exp["closest_candidates"]]}', dict(world=desc, query=qi))


def run_shard(sh, ctx):
	{'lineage': run_lineage, 'forest': run_forest, 'e2e': run_e2e}[sh['kind']](sh, ctx)


def finalize(merged, tier, seed, inconclusive):
	c = merged['counters']
	for n in ['lineages', 'lineages_with_thresholdless_leaf', 'distance_exactly_on_threshold', 'tied_minimum', 'e2e_api_queries', 'e2e_cli_commands', 'e2e_distance_exactly_on_a_threshold', 'distance_is_the_single_precision_value_of_a_threshold', 'lineages_deeper_than_recursion_limit', 'preceding_calls:keywords', 'e2e_next_taxon_is_a_hidden_one', 'e2e_worlds_with_constructed_tie_between_lineages', 'forest_report_flags_given_as:numpy']:
		if c.get(n, 0) == 0:
			inconclusive.append(f'class never observed: {n}')
	return dict(exhaustive=True, max_depth=max(merged['sets'].get('depths', {0})),
	            exhaustive_note='lineage-* shards enumerate every threshold/report assignment on lineages up to the stated depth over the distance grid; forest and e2e shards are sampled')
