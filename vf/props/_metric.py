"""Shared workload pieces for C02 / C15 / C05: dtype grid, set -> array builders, structural classes."""

import random

import numpy as np

DTYPES = ['u2', 'u4', 'u8', 'i2', 'i4', 'i8']


def maxval(dt: str) -> int:
	return int(np.iinfo(np.dtype(dt)).max)


def arr(values, dt: str) -> np.ndarray:
	"""Sorted duplicate-free array of the given dtype from an iterable of non-negative ints."""
	return np.array(sorted(set(values)), dtype=np.dtype(dt))


def universe_for(dta: str, dtb: str):
	"""(common values, extra values only the wider type can hold)."""
	ma, mb = maxval(dta), maxval(dtb)
	m = min(ma, mb)
	common = [0, 1, 2, m // 2 + 1, m - 1, m]
	wide = max(ma, mb)
	extra = [] if wide == m else [m + 1, wide]
	return common, extra


def structural_pairs(rng: random.Random, maxsize: int):
	for name, a, b in _structural_pairs(rng, maxsize):
		yield name, sorted(set(a)), sorted(set(b))


def _structural_pairs(rng: random.Random, maxsize: int):
	"""Yield (name, setA, setB) of python int sets with values < 2^15 * something; values are small enough
	for every dtype when `small` else span large ranges (caller picks dtype accordingly)."""
	n = rng.choice([1, 2, 3, 10, 100, 1000, maxsize // 10 or 1, maxsize])
	step = rng.choice([1, 2, 3, 7])
	base = list(range(0, n * step, step))
	yield 'equal', base, list(base)
	yield 'disjoint-interleaved', base[::2], base[1::2]
	yield 'disjoint-blocks', base[:n // 2], base[n // 2:]
	yield 'nested', base, base[rng.randrange(0, max(n // 2, 1)):rng.randrange(n // 2, n) + 1]
	yield 'one-empty', base, []
	yield 'both-empty', [], []
	yield 'last-equal', base[::2] + base[-1:], base[1::2] + base[-1:]
	yield 'first-equal', base[:1] + base[1::2], base[:1] + base[2::2]
	yield 'a-exhausted-first', base[:n // 3 + 1], base
	yield 'single-vs-many', [base[rng.randrange(n)]], base
	yield 'single-vs-single-eq', base[:1], base[:1]
	yield 'single-vs-single-ne', base[:1], [base[0] + 1]
	# random overlap
	a = set(rng.sample(range(0, 4 * n + 4), min(n, 4 * n + 4)))
	b = set(rng.sample(range(0, 4 * n + 4), min(max(n // rng.choice([1, 2, 5]), 1), 4 * n + 4)))
	yield 'random', sorted(a), sorted(b)
	# near-equal
	c = set(a)
	for _ in range(rng.choice([1, 2, 3])):
		c.symmetric_difference_update({rng.randrange(0, 4 * n + 4)})
	yield 'near-equal', sorted(a), sorted(c)


def fits(values, dt: str) -> bool:
	return (not values) or max(values) <= maxval(dt)
