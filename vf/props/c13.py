"""C13 - multi-file signature computation keeps file order under every completion order.

Monitor: the list returned by calc_file_signatures is compared position by position with the single-file
result (and the reference definition) while the completion order of the worker tasks is (1) forced to every
permutation through a caller-supplied executor whose futures are completed one at a time, each only after
the consumer acknowledged the previous one through a caller-supplied progress meter, and (2) observed on
real thread / process pools under size skew and injected delays."""

import os
import gzip
import time
import random
import itertools
import threading
from concurrent.futures import Executor, Future, ThreadPoolExecutor, ProcessPoolExecutor

import numpy as np

from vf.oracles import sigdef as S
from vf.oracles.fasta import write_fasta, soft_mask

LEVEL = 'exploration'
RULE = ('cases = (file list, execution mode, worker count, completion order); every permutation of completion order is forced for '
        'n<=5 files (thorough: n<=7) through a caller-supplied executor; real thread/process pools with size skew + injected delays, '
        'observed completion orders recorded; unreadable / malformed file at every position; non-trivial = >=2 files; '
        'distinct = (mode, n, workers, order or failure position) by hash')
ASSUMPTIONS = ['"cannot be read or parsed" is decided without the library: the bytes cannot be obtained (missing, directory), the gzip stream is broken, or the content is not text',
               'forcing relies on the documented executor / progress-meter parameters only; the delivered order is recorded by wrapping as_completed in the module namespace']
REACH = ['gambit.sigs.calc:calc_file_signatures', 'gambit.sigs.calc:calc_file_signature']
ACK_TIMEOUT = 3.0

K, PREFIX = 5, b'AT'
SPECS = [(5, b'AT'), (6, b'TA'), (5, b'AC'), (7, b'AT')]   # calls in one process alternate between these (state must not leak between calls)
_ORIG = None
_DELAYS = {}


def shards(tier, seed):
	out = []
	nmax = 6 if tier == 'quick' else 7
	for n in range(1, nmax + 1):
		nperm = 1
		for i in range(2, n + 1):
			nperm *= i
		parts = max(1, nperm // 720)
		for p in range(parts):
			out.append(dict(name=f'perm-n{n}-{p}', kind='perm', n=n, part=p, nparts=parts))
	out.append(dict(name='perm-all-done-first', kind='alldone', n=5))
	for n in (3, 4, 5):
		out.append(dict(name=f'perm-repeated-n{n}', kind='perm', n=n, part=0, nparts=1, repeated=True))
	for i, mode in enumerate(['none', 'threads', 'processes']):
		reps = (3 if mode != 'processes' else 2) if tier == 'quick' else 10
		for j in range(reps):
			out.append(dict(name=f'pool-{mode}-{j}', kind='pool', mode=mode, sub=j, runs=8 if tier == 'quick' else 14))
	for j in range(2 if tier == 'quick' else 8):
		out.append(dict(name=f'threads-yield-{j}', kind='pool', mode='threads', sub=100 + j, runs=6 if tier == 'quick' else 14, yield_injection=True))
	out.append(dict(name='relative-paths-after-chdir', kind='chdir', runs=2 if tier == 'quick' else 8))
	out.append(dict(name='fail', kind='fail', nmax=4 if tier == 'quick' else 6))
	out.append(dict(name='cli-create', kind='cli', runs=5 if tier == 'quick' else 25))
	return out


# ---- files --------------------------------------------------------------------------------------

def make_files(ctx, rng, n, skew=False, tag='f', spec=None):
	"""n FASTA files with pairwise different signatures. -> (SequenceFile list, expected signature lists)"""
	from gambit.seq import SequenceFile
	files, exps = [], []
	seen = set()
	for i in range(n):
		while True:
			if skew:
				ln = 2_000_000 if i < max(n // 4, 1) else rng.randint(60, 300)
			else:
				ln = rng.randint(60, 400)
			if ln > 10_000:
				# big file: short random part + long prefix-free padding (keeps signatures distinct, parsing slow)
				contigs = [bytes(rng.choice(b'ACGT') for _ in range(rng.randint(60, 300))) + b'C' * ln]
			else:
				contigs = [soft_mask(bytes(rng.choice(b'ACGT') for _ in range(ln))) for _ in range(rng.choice([1, 2]))]
			exp = S.signature(*(spec or (K, PREFIX)), contigs)
			if exp and tuple(exp) not in seen:
				seen.add(tuple(exp))
				break
		gz = rng.choice([False, False, False, False, False, False, False, True, True, 'multi'])
		p = ctx.workdir / f'{tag}{i}.fa{".gz" if gz else ""}'
		write_fasta(p, contigs, width=rng.choice([0, 60, 80]), gz=gz)
		files.append(SequenceFile(p, 'fasta', 'auto'))
		exps.append(exp)
	return files, exps


def check_result(ctx, res, exps, w, what):
	try:
		items = [np.asarray(x) for x in res]
	except Exception as e:
		ctx.violation('result-unusable', f'{what}: result cannot be iterated: {type(e).__name__}: {e}', w)
		return False
	if len(items) != len(exps):
		ctx.violation('wrong-length', f'{what}: {len(items)} signatures for {len(exps)} files', w)
		return False
	for i, (g, e) in enumerate(zip(items, exps)):
		if g.tolist() != e:
			where = [j for j, e2 in enumerate(exps) if g.tolist() == e2]
			ctx.violation('misplaced-or-wrong-signature', f'{what}: position {i} holds ' + (f'the signature of file {where[0]}' if where else 'a signature of no input file'), w)
			return False
	return True


# ---- forced completion orders -----------------------------------------------------------------------

class AckMeter:
	"""Caller-supplied progress meter: every increment acknowledges one consumed result."""
	def __init__(self, sem):
		self.sem, self.n, self.total, self.closed = sem, 0, 0, False
	def increment(self, delta=1):
		self.n += delta
		self.sem.release()
	def moveto(self, n):
		self.n = n
	def close(self):
		self.closed = True
	def __enter__(self):
		return self
	def __exit__(self, *a):
		self.close()


class PermExecutor(Executor):
	"""submit() returns pending futures; a driver thread completes them in `perm` order, each after the
	previous one was acknowledged (or all at once with wait_ack=False)."""
	def __init__(self, perm, n, wait_ack=True):
		self.perm, self.n, self.wait_ack = list(perm), n, wait_ack
		self.tasks = []
		self.sem = threading.Semaphore(0)
		self.completed_order = []
		self.ack_timeouts = 0
		self.shutdown_called = False
		self.ready = threading.Event()
		self.thread = threading.Thread(target=self._drive, daemon=True)
		self.thread.start()

	def submit(self, fn, *args, **kw):
		f = Future()
		self.tasks.append((f, fn, args, kw))
		if len(self.tasks) == self.n:
			self.ready.set()
		return f

	def _drive(self):
		if not self.ready.wait(30):
			return
		forced = self.wait_ack
		for idx in self.perm:
			f, fn, args, kw = self.tasks[idx]
			try:
				f.set_result(fn(*args, **kw))
			except BaseException as e:
				f.set_exception(e)
			self.completed_order.append(idx)
			if forced:
				if not self.sem.acquire(timeout=ACK_TIMEOUT):
					self.ack_timeouts += 1
					forced = False    # consumer does not acknowledge per result: stop forcing, finish the rest

	def shutdown(self, wait=True, **kw):
		self.shutdown_called = True


def meter_factory(sem):
	def create(total, initial=0, **kw):
		m = AckMeter(sem)
		m.total = total
		return m
	return create


class OrderRecorder:
	"""Wraps as_completed in gambit.sigs.calc's namespace and records the order of indices delivered."""
	def __init__(self):
		import gambit.sigs.calc as gc
		self.gc = gc
		self.orig = gc.as_completed
		self.orders = []
		self.calls = 0
		gc.as_completed = self

	def __call__(self, fs, *a, **kw):
		self.calls += 1
		order = []
		self.orders.append(order)
		for f in self.orig(fs, *a, **kw):
			try:
				order.append(fs[f])
			except Exception:
				order.append(None)
			yield f

	def restore(self):
		self.gc.as_completed = self.orig


def run_perm(sh, ctx):
	import gambit.sigs.calc as gc
	from gambit.kmers import KmerSpec
	rng = random.Random(f'C13-{ctx.seed}-{sh["name"]}')
	ks = KmerSpec(K, PREFIX)
	n = sh['n']
	files, exps = make_files(ctx, rng, n)
	if sh.get('repeated'):
		# the same file at two (n >= 5: three) positions of the list, under every completion order
		files[n - 1], exps[n - 1] = files[0], exps[0]
		if n >= 5:
			files[2], exps[2] = files[0], exps[0]
		ctx.count('runs_with_repeated_files')
	singles = [gc.calc_file_signature(ks, f).tolist() for f in files]
	if singles != exps:
		ctx.violation('single-file-vs-definition', 'calc_file_signature differs from the reference definition', dict(n=n))
	rec = OrderRecorder()
	try:
		perms = list(itertools.permutations(range(n)))
		if sh['kind'] == 'alldone':
			perms = perms[:: max(len(perms) // 40, 1)]
		for pi, perm in enumerate(perms):
			if sh['kind'] == 'perm' and pi % sh['nparts'] != sh['part']:
				continue
			ex = PermExecutor(perm, n, wait_ack=(sh['kind'] == 'perm'))
			w = dict(n=n, completion_order=list(perm), mode='caller-executor' + ('' if sh['kind'] == 'perm' else '/all-complete-before-consumption'))
			rec.orders.clear()
			try:
				res = gc.calc_file_signatures(ks, files, progress=meter_factory(ex.sem), executor=ex)
			except Exception as e:
				ctx.violation('raises-on-good-files', f'raised {type(e).__name__}: {e}', w)
				continue
			ex.thread.join(10)
			ctx.case(('perm', n, perm, sh['kind']), nontrivial=n >= 2, sample=dict(w, delivered=rec.orders[-1] if rec.orders else None) if pi in (1, 7) else None)
			ctx.count('forced_runs')
			delivered = rec.orders[-1] if rec.orders else None
			if sh['kind'] == 'perm':
				if ex.ack_timeouts:
					ctx.count('runs_not_forced(ack-timeout)')
				elif delivered == list(perm):
					ctx.count('orders_delivered_exactly_as_chosen')
					if list(perm) != sorted(perm):
						ctx.count('non_identity_orders_delivered')
				else:
					ctx.count('orders_delivered_differently')
			if delivered is not None:
				ctx.seen('delivered_orders', tuple(delivered))
			if ex.shutdown_called:
				ctx.violation('caller-executor-shut-down', 'the caller-supplied executor was shut down', w)
			check_result(ctx, res, exps, w, 'forced order')
	finally:
		rec.restore()
	if sh['kind'] == 'perm' and sh['nparts'] == 1:
		ctx.notes.setdefault('exhaustive_scopes', []).append(f'all {len(perms)} completion orders of {n} files')


# ---- real pools -------------------------------------------------------------------------------------

def _delayed_calc(kspec, seqfile, **kw):
	"""Module-level (picklable) stand-in for calc_file_signature with a per-file injected delay."""
	d = _DELAYS.get(str(seqfile.path), 0.0)
	if d:
		time.sleep(d)
	return _ORIG(kspec, seqfile, **kw)


class YieldInjector:
	"""sys.monitoring LINE callback on the per-file signature code that gives up the GIL (sleep(0)) at a seeded subset of
	statement starts, so that thread-pool tasks really interleave *inside* calc_signature / accumulate_kmers / find_kmers."""
	TOOL = 3

	def __init__(self, seed):
		import sys
		import gambit.sigs.calc as gc
		import gambit.kmers as gk
		self.m = sys.monitoring
		self.n = 0
		self.yields = 0
		self.salt = (__import__('vf.core', fromlist=['h64']).h64(str(seed)) & 0xFFFF) | 1
		self.codes = [gc.accumulate_kmers.__code__, gc.calc_signature.__code__, gk.find_kmers.__code__, gk.KmerMatch.kmer_index.__code__,
		              gc.ArrayAccumulator.add.__code__, gc.SetAccumulator.add.__code__, gc.ArrayAccumulator.signature.__code__, gc.SetAccumulator.signature.__code__,
		              gc.calc_file_signature.__code__]
		self.m.use_tool_id(self.TOOL, 'verif-yield')
		for c in self.codes:
			self.m.set_local_events(self.TOOL, c, self.m.events.LINE)
		self.m.register_callback(self.TOOL, self.m.events.LINE, self._cb)

	def _cb(self, code, line):
		self.n += 1
		if (self.n * self.salt) % 5 == 0:
			self.yields += 1
			time.sleep(0)

	def close(self):
		for c in self.codes:
			self.m.set_local_events(self.TOOL, c, 0)
		self.m.register_callback(self.TOOL, self.m.events.LINE, None)
		self.m.free_tool_id(self.TOOL)


def run_pool(sh, ctx):
	global _ORIG
	import gambit.sigs.calc as gc
	from gambit.kmers import KmerSpec
	inj = YieldInjector(f'{ctx.seed}-{sh["sub"]}') if sh.get('yield_injection') else None
	try:
		_run_pool(sh, ctx, gc, KmerSpec)
	finally:
		if inj is not None:
			ctx.count('yield_injection_line_events', inj.n)
			ctx.count('yield_injections', inj.yields)
			inj.close()


def _run_pool(sh, ctx, gc, KmerSpec):
	global _ORIG
	rng = random.Random(f'C13-{ctx.seed}-{sh["name"]}')
	ks = KmerSpec(K, PREFIX)
	mode = None if sh['mode'] == 'none' else sh['mode']
	_ORIG = gc.calc_file_signature
	rec = OrderRecorder()
	gc.calc_file_signature = _delayed_calc
	try:
		for r in range(sh['runs']):
			n = rng.choice([1, 2, 3, 8, 20, 40, 70]) if not sh.get('yield_injection') else rng.choice([4, 8, 12])
			skew = rng.random() < 0.4 and mode is not None and not sh.get('yield_injection')
			spec = SPECS[(r + sh['sub']) % len(SPECS)]
			ks = KmerSpec(spec[0], spec[1])
			ctx.seen('kmerspecs_used_in_one_process', f'{spec[0]}/{spec[1].decode()}')
			files, exps = make_files(ctx, rng, n, skew=skew, tag=f'r{r}_', spec=spec)
			# a file named through a symlinked directory and '..': the operating system resolves 'lnk/../x.fa' to the PARENT OF THE LINK'S
			# TARGET, a textual clean-up of the path names another file (a decoy with other content sits there)
			if r % 4 == 1 and len(files) >= 2:
				from gambit.seq import SequenceFile as _SF2
				import shutil as _sh2
				t1 = ctx.workdir / f'r{r}_t1'; (t1 / 't2').mkdir(parents=True, exist_ok=True)
				lnk = ctx.workdir / f'r{r}_lnk'
				if not lnk.exists():
					os.symlink(t1 / 't2', lnk)
				j_ = rng.randrange(len(files))
				src_ = str(files[j_].path)
				nm_ = 'dd_' + os.path.basename(src_)
				_sh2.copy(src_, t1 / nm_)                                   # what 'lnk/../<name>' really is
				other_ = str(files[(j_ + 1) % len(files)].path)
				_sh2.copy(other_, ctx.workdir / nm_)                        # what a textual clean-up of the path would name
				files[j_] = _SF2(os.path.join(str(lnk), '..', nm_), 'fasta', 'auto')
				ctx.count('runs_with_dotdot_through_symlinked_directory')
			# files without any sequence record (zero bytes, an empty gzip member, a lone header): legal input whose signature is empty
			nempty = 0
			if r % 4 == 2 or rng.random() < 0.15:
				from gambit.seq import SequenceFile as _SF
				for e_ in range(rng.randint(1, 2)):
					kind_ = rng.choice(['zero-bytes', 'empty-gzip', 'header-only'])
					pe = ctx.workdir / f'r{r}_empty{e_}.fa{".gz" if kind_ == "empty-gzip" else ""}'
					pe.write_bytes({'zero-bytes': b'', 'empty-gzip': gzip.compress(b''), 'header-only': b'>no sequence here\n'}[kind_])
					at = rng.randint(0, len(files))
					files.insert(at, _SF(pe, 'fasta', 'auto')); exps.insert(at, [])
					nempty += 1
				n = len(files)
				ctx.count('runs_with_recordless_files')
			uniq = list(files)
			dups = 0
			if r % 3 == 1 or (n >= 2 and rng.random() < 0.2):
				# the same file listed more than once (same object, an equal object, or an equivalent spelling of the path)
				import attr
				for _ in range(rng.randint(1, 3)):
					j = rng.randrange(len(files)); at = rng.randint(0, len(files))
					f = files[j]
					c = rng.random()
					if c < 0.4:
						f2 = f
					elif c < 0.7:
						f2 = attr.evolve(f)
					else:
						f2 = attr.evolve(f, path=type(f.path)(os.path.join(os.path.dirname(str(f.path)), '.', os.path.basename(str(f.path)))))
					files.insert(at, f2); exps.insert(at, exps[j]); dups += 1
				n = len(files)
				ctx.count('runs_with_repeated_files')
			_DELAYS.clear()
			style = rng.choice(['none', 'decreasing', 'random'])
			for i, f in enumerate(files):
				if style == 'decreasing':
					_DELAYS[str(f.path)] = 0.002 * (n - i)
				elif style == 'random':
					_DELAYS[str(f.path)] = rng.random() * 0.02
			workers = rng.choice([1, 2, 3, 4, 8, 16, None])
			own = rng.random() < 0.3 and mode is not None
			w = dict(n=n, mode=sh['mode'], max_workers=workers, skew=skew, delays=style, caller_executor=own, kmerspec=f'{spec[0]}/{spec[1].decode()}', repeated_files=dups, recordless_files=nempty)
			rec.orders.clear()
			ex = None
			try:
				if own:
					ex = (ThreadPoolExecutor if mode == 'threads' else ProcessPoolExecutor)(max_workers=workers or 4)
					res = gc.calc_file_signatures(ks, files, concurrency=mode, executor=ex)
				else:
					res = gc.calc_file_signatures(ks, tuple(files) if r % 5 == 3 else files, concurrency=mode, max_workers=workers)
			except Exception as e:
				ctx.violation('raises-on-good-files', f'raised {type(e).__name__}: {e}', w)
				continue
			finally:
				pass
			ctx.case(('pool', sh['mode'], n, workers, skew, style, own, r, sh['sub']), nontrivial=n >= 2, sample=w if r == 0 else None)
			ctx.count(f'pool_runs:{sh["mode"]}')
			if rec.orders:
				o = rec.orders[-1]
				if any(not isinstance(x, int) for x in o):
					ctx.count('pool_orders_unobservable')      # observation only: the future -> index map is an internal detail
				else:
					ctx.count('pool_orders_observed')
					if o != sorted(o):
						ctx.count('pool_orders_not_identity')
					ctx.seen('pool_orders', tuple(o[:12]))
			check_result(ctx, res, exps, w, f'pool {sh["mode"]}')
			if ex is not None:
				try:
					fut = ex.submit(int, '7')
					if fut.result(600) != 7:
						raise RuntimeError('bad result')
					ctx.count('caller_executor_still_usable')
				except TimeoutError:
					ctx.inconc('caller-supplied executor did not answer within 600 s (loaded machine?)')
				except Exception as e:
					ctx.violation('caller-executor-shut-down', f'caller-supplied executor unusable afterwards: {type(e).__name__}: {e}', w)
				ex.shutdown()
			for f in uniq:
				try:
					os.unlink(f.path)
				except OSError:
					pass
	finally:
		gc.calc_file_signature = _ORIG
		rec.restore()


CHDIR_CHILD = r"""
import os, sys, json
import gambit.seq, gambit.sigs.calc as gc           # imported while the working directory is the FIRST one
from gambit.seq import SequenceFile
from gambit.kmers import KmerSpec
from concurrent.futures import ProcessPoolExecutor, ThreadPoolExecutor
spec = json.loads(sys.argv[1])
ks = KmerSpec(spec['k'], spec['prefix'])
out = {}

def one(mode):
	files = [SequenceFile(n, 'fasta', 'auto') for n in spec['names']]
	try:
		if mode == 'process-executor':
			with ProcessPoolExecutor(3) as ex:
				res = gc.calc_file_signatures(ks, files, concurrency='processes', executor=ex)
		elif mode == 'thread-executor':
			with ThreadPoolExecutor(3) as ex:
				res = gc.calc_file_signatures(ks, files, concurrency='threads', executor=ex)
		else:
			res = gc.calc_file_signatures(ks, files, concurrency=None if mode == 'none' else mode, max_workers=spec['workers'])
		return dict(sigs=[[int(x) for x in s_] for s_ in res])
	except Exception as e:
		return dict(error=f'{type(e).__name__}: {e}')

os.chdir(spec['second'])
for mode in spec['modes']:
	out[mode] = one(mode)
if spec.get('third'):
	os.chdir(spec['third'])          # and on to the next run directory: the same relative names, other genomes
	for mode in spec['modes']:
		out[mode + '@third'] = one(mode)
print('RESULT ' + json.dumps(out))
"""


def run_chdir(sh, ctx):
	"""Files named by RELATIVE paths, the working directory changed after the library was imported (a pipeline that enters its run
	directory), and files with the same relative names and other content in the directory the process started in: every execution
	mode reads the files the names denote NOW, like the single-file call does. One child process per run (the import-time working
	directory is a property of a process)."""
	import json, subprocess
	from vf import core
	rng = random.Random(f'C13-chdir-{ctx.seed}')
	for r in range(sh['runs']):
		first, second = ctx.workdir / f'c{r}_first', ctx.workdir / f'c{r}_second'
		n = rng.choice([3, 5, 9])
		spec = SPECS[r % len(SPECS)]
		names, exps = [], []
		for i in range(n):
			nm = f'g{i}.fa' if i % 3 else f'sub/g{i}.fa'
			for base, keep in ((second, True), (first, False)):
				if not keep and r % 2 and i % 2:
					continue                # odd runs: some names exist only in the second directory
				(base / nm).parent.mkdir(parents=True, exist_ok=True)
				while True:
					contigs = [soft_mask(bytes(rng.choice(b'ACGT') for _ in range(rng.randint(200, 500)))) for _ in range(rng.randint(2, 4) if sh.get('layout') else 1)]
					e = S.signature(spec[0], spec[1], contigs)
					if e and e not in exps:
						break
				if sh.get('layout'):
					write_fasta(base / nm, contigs, width=rng.choice([0, 60, 80]), eol=rng.choice([b'\n', b'\r\n']), gz=rng.choice([False, True, 'multi']))
				else:
					write_fasta(base / nm, contigs)
				if keep:
					exps.append(e)
			names.append(nm)
		modes = ['none', 'threads', 'processes', 'process-executor', 'thread-executor']
		third = ctx.workdir / f'c{r}_third'
		exps3 = []
		for nm in names:
			(third / nm).parent.mkdir(parents=True, exist_ok=True)
			while True:
				contigs = [soft_mask(bytes(rng.choice(b'ACGT') for _ in range(rng.randint(200, 500)))) for _ in range(rng.randint(2, 4) if sh.get('layout') else 1)]
				e = S.signature(spec[0], spec[1], contigs)
				if e and e not in exps and e not in exps3:
					break
			write_fasta(third / nm, contigs, gz=rng.choice([False, True]) if sh.get('layout') else False)
			exps3.append(e)
		arg = dict(second=str(second), third=str(third), k=spec[0], prefix=spec[1].decode(), names=names, modes=modes, workers=rng.choice([1, 2, 4, None]))
		try:
			pr = subprocess.run(['/venv/bin/python', '-c', CHDIR_CHILD, json.dumps(arg)], cwd=str(first), env=core.worker_env(), capture_output=True, timeout=900)
		except subprocess.TimeoutExpired:
			ctx.inconc('relative-paths child process did not finish within 900 s')
			continue
		line = [l for l in pr.stdout.decode('utf8', 'replace').splitlines() if l.startswith('RESULT ')]
		if not line:
			ctx.inconc(f'relative-paths child process gave no result: rc={pr.returncode} {pr.stderr.decode("utf8", "replace")[-300:]}')
			continue
		out = json.loads(line[-1][7:])
		for mode in modes + [m + '@third' for m in modes]:
			w = dict(n=n, mode=mode, names=names, started_in='a directory holding other files under the same relative names' if not r % 2 else 'a directory holding other files under SOME of the names',
			         kmerspec=f'{spec[0]}/{spec[1].decode()}', max_workers=arg['workers'])
			ctx.case(('chdir', r, mode), nontrivial=True, sample=w if r == 0 and mode == 'processes' else None)
			ctx.count(f'relative_paths_after_chdir:{mode}')
			o = out.get(mode, {})
			if 'error' in o:
				ctx.violation('raises-on-good-files', f'{mode}: relative paths after os.chdir: raised {o["error"]}', w)
				continue
			check_result(ctx, [np.array(x, dtype='u8') for x in o['sigs']], exps3 if mode.endswith('@third') else exps, w, f'relative paths after chdir, {mode}')


# ---- failures ---------------------------------------------------------------------------------------

def bad_file(ctx, kind, tag):
	from gambit.seq import SequenceFile
	p = ctx.workdir / f'bad_{tag}_{kind}.fa'
	if kind == 'missing':
		pass
	elif kind == 'directory':
		p.mkdir()
	elif kind == 'truncated-gzip':
		# many records of real sequence: the first ones parse (and are searched) before the stream breaks off
		r = random.Random(tag)
		body = b''.join(b'>c%d\n' % i + bytes(r.choice(b'ACGT') for _ in range(300)) + b'\n' for i in range(200))
		data = gzip.compress(body)
		p.write_bytes(data[:len(data) // 2])
	elif kind == 'garbage-in-the-middle':
		r = random.Random(tag)
		body = b''.join(b'>c%d\n' % i + bytes(r.choice(b'ACGT') for _ in range(300)) + b'\n' for i in range(120))
		p.write_bytes(body + bytes([0xff, 0xfe, 0x81]) * 50 + b'\n>tail\nACGT\n')
	elif kind == 'garbage':
		p.write_bytes(bytes([0xff, 0xfe, 0x00, 0x81]) * 200)
	elif kind == 'unreadable':
		p.write_bytes(b'>c\nACGT\n')
		os.chmod(p, 0)
	return SequenceFile(p, 'fasta', 'auto')


def run_fail(sh, ctx):
	import gambit.sigs.calc as gc
	from gambit.kmers import KmerSpec
	rng = random.Random(f'C13-fail-{ctx.seed}')
	ks = KmerSpec(K, PREFIX)
	kinds = ['missing', 'directory', 'truncated-gzip', 'garbage', 'garbage-in-the-middle']
	# which kinds make the single-file function fail (definition of "cannot be read or parsed")
	failing = []
	for kd in kinds:
		bf = bad_file(ctx, kd, 'probe')
		# "cannot be read or parsed", decided without the library: the bytes cannot be obtained, the gzip stream is broken, or the
		# content is not text
		try:
			data = open(bf.path, 'rb').read()
			if data[:2] == b'\x1f\x8b':
				data = gzip.decompress(data)
			data.decode('ascii')
			unreadable = False
		except Exception:
			unreadable = True
		try:
			r1 = gc.calc_file_signature(ks, bf)
		except Exception as e:
			failing.append(kd)
			ctx.seen('single_file_errors', f'{kd}:{type(e).__name__}')
		else:
			ctx.count(f'single_file_accepts:{kd}')
			if unreadable:
				failing.append(kd)
				ctx.violation('returns-despite-bad-file', f'calc_file_signature returned {type(r1).__name__} for a file that cannot be read or parsed ({kd})', dict(bad_kind=kd, mode='single file'))
	t = 0
	for n in range(1, sh['nmax'] + 1):
		good, exps = make_files(ctx, rng, n, tag=f'g{n}_')
		for pos in range(n):
			for kd in failing:
				for mode in ('none', 'threads', 'processes', 'caller-threads', 'perm'):
					if mode == 'processes' and (pos + n) % 2:
						continue  # process pools are slow: every other position
					t += 1
					files = list(good)
					files[pos] = bad_file(ctx, kd, f't{t}')
					w = dict(n=n, bad_position=pos, bad_kind=kd, mode=mode)
					ctx.case(('fail', n, pos, kd, mode), nontrivial=True, sample=w if t == 3 else None)
					ctx.count(f'failure_runs:{mode}')
					ex = None
					try:
						if mode == 'none':
							res = gc.calc_file_signatures(ks, files, concurrency=None)
						elif mode in ('threads', 'processes'):
							res = gc.calc_file_signatures(ks, files, concurrency=mode, max_workers=rng.choice([1, 2, 4]))
						elif mode == 'caller-threads':
							ex = ThreadPoolExecutor(2)
							res = gc.calc_file_signatures(ks, files, executor=ex)
						else:
							perm = list(range(n)); rng.shuffle(perm)
							pex = PermExecutor(perm, n)
							res = gc.calc_file_signatures(ks, files, progress=meter_factory(pex.sem), executor=pex)
					except Exception as e:
						ctx.count('failures_propagated')
						ctx.seen('propagated_error_types', type(e).__name__)
					else:
						ctx.violation('returns-despite-bad-file', f'returned {len(list(res))} signatures although file {pos} ({kd}) cannot be read/parsed', w)
					# history: a later *successful* call in the same process / on the same executor must be unaffected by the earlier failure
					if mode in ('none', 'caller-threads', 'threads') and (t % 3 == 0 or kd in ('truncated-gzip', 'garbage-in-the-middle')):
						try:
							if mode == 'none':
								res2 = gc.calc_file_signatures(ks, good, concurrency=None)
							elif mode == 'threads':
								res2 = gc.calc_file_signatures(ks, good, concurrency='threads', max_workers=1)
							else:
								res2 = gc.calc_file_signatures(ks, good, executor=ex)
						except Exception as e:
							ctx.violation('raises-on-good-files', f'call after an earlier failed call raised {type(e).__name__}: {e}', w)
						else:
							ctx.count('successful_calls_after_a_failed_call')
							check_result(ctx, res2, exps, dict(w, history='failed call, then this successful call'), f'call after a failed call ({mode})')
					if ex is not None:
						try:
							assert ex.submit(int, '3').result(600) == 3
							ctx.count('caller_executor_still_usable')
						except TimeoutError:
							ctx.inconc('caller-supplied executor did not answer within 600 s (loaded machine?)')
						except Exception as e:
							ctx.violation('caller-executor-shut-down', f'after a failure: {type(e).__name__}: {e}', w)
						ex.shutdown()


def run_cli(sh, ctx):
	"""`gambit signatures create -c N` on skewed files: stored signatures must sit at their file's position."""
	from vf import clidrv
	from gambit.sigs.base import load_signatures
	rng = random.Random(f'C13-cli-{ctx.seed}')
	for r in range(sh['runs']):
		n = rng.choice([2, 3, 7, 16])
		files, exps = make_files(ctx, rng, n, skew=rng.random() < 0.6, tag=f'cli{r}_')
		order = list(range(n)); rng.shuffle(order)
		files, exps = [files[i] for i in order], [exps[i] for i in order]
		cores = rng.choice([None, 1, 2, 4, 16])
		out = ctx.workdir / f'cli{r}.gs'
		args = ['signatures', 'create', '-k', K, '-p', PREFIX.decode(), '-o', out, '--no-progress'] + (['-c', cores] if cores else []) + [f.path for f in files]
		code, so, se, exc = clidrv.run_inproc(args)
		w = dict(n=n, cores=cores, cli=True, files=[os.path.basename(str(f.path)) for f in files])
		ctx.case(('cli', r, n, cores), nontrivial=n >= 2)
		ctx.count('cli_create_runs')
		if code != 0:
			ctx.violation('raises-on-good-files', f'signatures create exited {code}: {se[-200:]} {exc}', w)
			continue
		h = load_signatures(str(out))
		try:
			check_result(ctx, [h[i] for i in range(len(h))], exps, w, 'signatures create')
		finally:
			h.close()
		# an unreadable file anywhere: non-zero exit and no signature file left that loads as a shorter collection
		bad = list(files)
		pos = rng.randrange(n)
		bad[pos] = bad_file(ctx, 'missing', f'cli{r}')
		out2 = ctx.workdir / f'cli{r}_bad.gs'
		code, so, se, exc = clidrv.run_inproc(['signatures', 'create', '-k', K, '-p', PREFIX.decode(), '-o', out2, '--no-progress'] + (['-c', cores] if cores else []) + [f.path for f in bad])
		ctx.count('cli_create_failure_runs')
		if code == 0:
			ctx.violation('returns-despite-bad-file', f'signatures create exited 0 although file {pos} does not exist', w)


def run_shard(sh, ctx):
	if sh['kind'] == 'cli':
		return run_cli(sh, ctx)
	{'perm': run_perm, 'alldone': run_perm, 'pool': run_pool, 'fail': run_fail, 'chdir': run_chdir}[sh['kind']](sh, ctx)


def finalize(merged, tier, seed, inconclusive):
	c = merged['counters']
	for n in ['forced_runs', 'orders_delivered_exactly_as_chosen', 'non_identity_orders_delivered', 'pool_runs:none', 'pool_runs:threads', 'pool_runs:processes',
	          'failures_propagated', 'caller_executor_still_usable', 'failure_runs:processes', 'failure_runs:perm', 'yield_injections', 'successful_calls_after_a_failed_call', 'runs_with_repeated_files', 'runs_with_recordless_files', 'runs_with_dotdot_through_symlinked_directory', 'relative_paths_after_chdir:processes', 'relative_paths_after_chdir:process-executor', 'relative_paths_after_chdir:processes@third']:
		if c.get(n, 0) == 0:
			inconclusive.append(f'class never observed: {n}')
	if c.get('pool_orders_observed', 0) and c.get('pool_orders_not_identity', 0) == 0:
		inconclusive.append('every completion order observed on real pools was the identity: the schedule dimension was not exercised')
	nf = c.get('runs_not_forced(ack-timeout)', 0)
	if nf > 0.2 * max(c.get('forced_runs', 1), 1):
		inconclusive.append(f'{nf} of {c.get("forced_runs")} forced runs lost their forcing (consumer does not acknowledge per result)')
	return dict(exhaustive=True, distinct_delivered_orders=len(merged['sets'].get('delivered_orders', ())),
	            distinct_pool_orders=len(merged['sets'].get('pool_orders', ())),
	            exhaustive_note='perm-n* shards force every permutation of completion order for the stated n; pool and failure shards are sampled / enumerated by position')
