"""C20 - signature collections index like NumPy sequences and compare by content.

Monitor: a plain Python list of arrays is the reference model; every index expression on the three
collection kinds (concatenated in memory, list-backed, file-backed on disk) is compared with it, and
SignatureList mutation histories are replayed against a plain list with a full sweep after each step."""

import itertools
import random

import numpy as np

LEVEL = 'exploration'
RULE = ('cases = (collection kind, collection of length 0..7, index expression) and SignatureList mutation histories; exhaustive: '
        'every int in -n-2..n+2 (python and all numpy integer scalar types), every slice(start,stop,step) with start/stop in '
        '{None,-n-2..n+2} and step in {None,+-1,+-2,+-3,+-(n+1)}, boolean masks (all 2^n for n<=5), index lists/arrays over '
        '-n-1..n in 9 dtypes, ill-typed indices; non-trivial = index selects >=1 element or must raise; distinct by hash')
ASSUMPTIONS = ['the reference model is a plain Python list (and NumPy fancy indexing of an object array for integer/boolean arrays)',
               'slice step 0 raises ValueError exactly like a list does: accepted as the "ill-typed index" error',
               'tuples as indices are not generated (list and NumPy disagree about them)']
REACH = ['gambit.util.indexing:AdvancedIndexingMixin.__getitem__', 'gambit.util.indexing:AdvancedIndexingMixin._check_index',
         'gambit.sigs.base:ConcatenatedSignatureArray._getitem_slice', 'gambit.sigs.base:ConcatenatedSignatureArray._getitem_int_array',
         'gambit.sigs.base:ConcatenatedSignatureArray._getitem_int', 'gambit.sigs.base:SignatureList._getitem_int_array',
         'gambit.sigs.base:SignatureList.__setitem__', 'gambit.sigs.base:SignatureList.__delitem__', 'gambit.sigs.base:SignatureList.insert',
         'gambit.sigs.base:AbstractSignatureArray.__eq__', 'gambit.sigs.base:sigarray_eq']
KINDS = ['sigarray', 'siglist', 'hdf5']
INT_DTYPES = ['i1', 'i2', 'i4', 'i8', 'u1', 'u2', 'u4', 'u8', 'intp']


def shards(tier, seed):
	out = []
	lens = list(range(0, 8))
	for n in lens:
		for kind in KINDS:
			out.append(dict(name=f'index-{kind}-n{n}', kind='index', ckind=kind, n=n))
	nh = 4 if tier == 'quick' else 24
	for i in range(nh):
		out.append(dict(name=f'hist-{i}', kind='hist', sub=i, nhist=40 if tier == 'quick' else 200, steps=60 if tier == 'quick' else 200))
	out.append(dict(name='eq', kind='eq', n=300 if tier == 'quick' else 3000))
	for kind in KINDS:
		out.append(dict(name=f'long-{kind}', kind='long', ckind=kind, lens=[130, 300, 1100] if tier == 'quick' else [128, 129, 200, 257, 1000, 1001, 2300, 33000]))
	if tier == 'thorough':
		for i in range(8):
			out.append(dict(name=f'rand-index-{i}', kind='randindex', sub=i, n=400))
	for s_ in out:
		if s_.get('kind') in ['index', 'hist'] and not s_.get('sanitizer'):
			s_['contracts'] = ['C20']
	out.append(dict(name='suite-contracts', kind='suite-contracts', which=['C20'], tests=['tests/sigs/test_base.py', 'tests/sigs/test_hdf5.py', 'tests/util/test_indexing.py']))
	return out


def make_sigs(rng, n, dt):
	sigs = []
	for i in range(n):
		c = rng.random()
		if c < 0.25:
			s = []
		else:
			s = sorted(rng.sample(range(200), rng.randint(1, 6)))
		sigs.append(np.array(s, dtype=dt))
	# make the signatures pairwise distinguishable where possible (so a wrong element is visible)
	for i in range(n):
		if len(sigs[i]):
			sigs[i] = np.array(sorted(set(sigs[i].tolist()) | {200 + i}), dtype=dt)
	return sigs


def build(kind, sigs, ks, dt, ctx, tag):
	from gambit.sigs.base import SignatureArray, SignatureList, dump_signatures, load_signatures
	if kind == 'sigarray':
		return SignatureArray(sigs, ks, dtype=np.dtype(dt)), (lambda: None)
	if kind == 'siglist':
		return SignatureList(list(sigs), ks, dtype=np.dtype(dt)), (lambda: None)
	path = ctx.workdir / f'{tag}.gs'
	dump_signatures(str(path), SignatureArray(sigs, ks, dtype=np.dtype(dt)))
	h = load_signatures(str(path))
	return h, h.close


ERR = (IndexError, TypeError)


class IndexChecker:
	def __init__(self, ctx, coll, L, ks, dt, kind):
		self.ctx, self.coll, self.L, self.ks, self.dt, self.kind = ctx, coll, L, ks, np.dtype(dt), kind
		from gambit.sigs.base import AbstractSignatureArray
		self.ASA = AbstractSignatureArray

	def w(self, idx):
		return dict(kind=self.kind, n=len(self.L), index=repr(idx)[:200], index_type=type(idx).__name__ + (f'[{idx.dtype}]' if isinstance(idx, (np.ndarray, np.generic)) else ''))

	def expect_item(self, idx, exp, cls):
		ctx = self.ctx
		ctx.case((self.kind, len(self.L), cls, repr(idx), str(getattr(idx, 'dtype', ''))), nontrivial=True)
		ctx.count(f'class:{cls}')
		try:
			got = self.coll[idx]
		except Exception as e:
			ctx.violation(f'valid-index-raises:{cls}', f'{self.kind}[{idx!r}] raised {type(e).__name__}: {e}', self.w(idx))
			return
		if not isinstance(got, np.ndarray) or not np.array_equal(got, exp) or got.dtype != self.dt:
			ctx.violation('wrong-element', f'{self.kind}[{idx!r}] = {got!r} expected {exp!r} dtype {self.dt}', self.w(idx))

	def expect_raise(self, idx, cls, errs=ERR):
		ctx = self.ctx
		ctx.case((self.kind, len(self.L), cls, repr(idx), str(getattr(idx, 'dtype', ''))), nontrivial=True)
		ctx.count(f'class:{cls}')
		try:
			got = self.coll[idx]
		except errs as e:
			ctx.seen('error_types', type(e).__name__)
			return
		except Exception as e:
			ctx.violation(f'wrong-error-type:{cls}', f'{self.kind}[{idx!r}] raised {type(e).__name__}: {e} (expected IndexError/TypeError)', self.w(idx))
			return
		ctx.violation(f'bad-index-accepted:{cls}', f'{self.kind}[{idx!r}] returned {got!r} instead of raising', self.w(idx))

	def expect_sub(self, idx, expl, cls):
		"""expl: list of arrays expected."""
		ctx = self.ctx
		ctx.case((self.kind, len(self.L), cls, repr(idx), str(getattr(idx, 'dtype', ''))), nontrivial=len(expl) > 0)
		ctx.count(f'class:{cls}')
		before = idx.copy() if isinstance(idx, np.ndarray) else (list(idx) if isinstance(idx, list) else None)
		snap = getattr(idx, 'verif_snapshot', None)   # buffer-sharing index objects (array.array, memoryview, __array__ providers)
		snap0 = snap() if snap else None
		try:
			got = self.coll[idx]
		except Exception as e:
			ctx.violation(f'valid-index-raises:{cls}', f'{self.kind}[{idx!r}] raised {type(e).__name__}: {e}', self.w(idx))
			return
		if before is not None:
			same = np.array_equal(idx, before) if isinstance(idx, np.ndarray) else idx == before
			if not same:
				ctx.violation('caller-index-modified', f'index array changed from {before!r} to {idx!r}', self.w(before))
		if snap and snap() != snap0:
			ctx.violation('caller-index-modified', f'{cls}: the caller\'s index object held {snap0!r} before indexing and {snap()!r} afterwards', self.w(snap0))
		if not isinstance(got, self.ASA):
			ctx.violation('sub-not-collection', f'{self.kind}[{idx!r}] is a {type(got).__name__}', self.w(idx))
			return
		try:
			items = [got[i] for i in range(len(got))]
		except Exception as e:
			ctx.violation('sub-collection-unusable', f'{self.kind}[{idx!r}] returned a collection whose len()/items raise {type(e).__name__}: {e}', self.w(idx))
			return
		ok = len(items) == len(expl) and all(np.array_equal(g, e) and g.dtype == self.dt for g, e in zip(items, expl))
		if ok and (len(expl) == 0 or self.ctx.evals % 7 == 0):
			# iterating the sub-collection yields the same signatures as indexing it (an empty selection iterates to nothing)
			try:
				it = list(got)
			except Exception as e:
				ctx.violation('sub-collection-unusable', f'iterating {self.kind}[{idx!r}] raised {type(e).__name__}: {e}', self.w(idx)); return
			self.ctx.count('class:sub-collection-iterated' + (':empty' if not expl else ''))
			if len(it) != len(expl) or not all(np.array_equal(g, e) for g, e in zip(it, expl)):
				ctx.violation('iteration-differs-from-indexing', f'list({self.kind}[{idx!r}]) has {len(it)} item(s) {[x.tolist() for x in it][:3]}, indexing gives {len(expl)}', self.w(idx)); return
		if not ok:
			ctx.violation('wrong-subcollection', f'{self.kind}[{idx!r}] = {[x.tolist() for x in items]} expected {[e.tolist() for e in expl]}', self.w(idx))
			return
		if got.kmerspec != self.ks:
			ctx.violation('sub-kmerspec-lost', f'sub-collection kmerspec {got.kmerspec} != {self.ks}', self.w(idx))
		if np.dtype(got.dtype) != self.dt:
			ctx.violation('sub-dtype-changed', f'sub-collection dtype {got.dtype} != {self.dt}', self.w(idx))


def aliasing_cases(ic: IndexChecker, rng):
	"""Immutable sequences: a sub-collection / item obtained earlier keeps its content whatever is indexed afterwards."""
	L, n, ctx = ic.L, len(ic.L), ic.ctx
	if n < 2:
		return
	def rnd_index():
		c = rng.random()
		if c < 0.4:
			a = rng.randrange(n); b = rng.randrange(a, n) + 1
			return slice(a, b), L[a:b]
		if c < 0.7:
			l = [rng.randrange(n) for _ in range(rng.randint(1, n))]
			return l, [L[i] for i in l]
		m = np.array([rng.random() < 0.6 for _ in range(n)])
		return m, [L[i] for i in range(n) if m[i]]
	for _ in range(25):
		held = []
		for _ in range(rng.randint(2, 4)):
			idx, exp = rnd_index()
			try:
				held.append((idx, exp, ic.coll[idx]))
			except Exception as e:
				ctx.violation('valid-index-raises:aliasing', f'{ic.kind}[{idx!r}] raised {type(e).__name__}: {e}', ic.w(idx)); return
		ctx.case((ic.kind, n, 'aliasing', repr([h[0] for h in held])), nontrivial=True)
		ctx.count('class:aliasing')
		for idx, exp, got in held:
			items = [got[i] for i in range(len(got))]
			if len(items) != len(exp) or not all(np.array_equal(g, e) for g, e in zip(items, exp)):
				ctx.violation('sub-collection-changed-after-later-indexing', f'{ic.kind}[{idx!r}] was correct when taken but reads {[x.tolist() for x in items][:4]} after other sub-collections were taken; expected {[e.tolist() for e in exp][:4]}', ic.w(idx))
				return


def nested_cases(ic: IndexChecker, rng, depth=0):
	"""A sub-collection is a collection: indexing it again (views of views, copies and pickles of it) follows the same list model."""
	import copy, pickle
	L, n, ctx = ic.L, len(ic.L), ic.ctx
	if n < 2:
		return
	for _ in range(6):
		c = rng.random()
		if c < 0.5:
			a = rng.randrange(n); b = rng.randint(a, n); st = rng.choice([1, 1, 2, -1, -2, 3])
			idx = slice(a, b, st) if st > 0 else slice(b - 1 if b else None, a - 1 if a else None, st)
			Ls = L[idx]
		elif c < 0.8:
			idx = [rng.randrange(-n, n) for _ in range(rng.randint(1, n + 1))]
			Ls = [L[i] for i in idx]
		else:
			idx = np.array([rng.random() < 0.6 for _ in range(n)])
			Ls = [L[i] for i in range(n) if idx[i]]
		try:
			sub = ic.coll[idx]
		except Exception as e:
			ctx.violation('valid-index-raises:nested', f'{ic.kind}[{idx!r}] raised {type(e).__name__}: {e}', ic.w(idx)); return
		variant = rng.choice(['as-is', 'as-is', 'copy', 'deepcopy', 'pickle'])
		try:
			if variant == 'copy':
				sub = copy.copy(sub)
			elif variant == 'deepcopy':
				sub = copy.deepcopy(sub)
			elif variant == 'pickle':
				sub = pickle.loads(pickle.dumps(sub))
		except Exception as e:
			ctx.count(f'nested:{variant}-not-supported')     # observation only: the statement does not promise copy / pickle support
			continue
		ctx.count(f'class:nested:{variant}')
		ic2 = IndexChecker(ctx, sub, Ls, ic.ks, ic.dt, f'{ic.kind}[{repr(idx)[:40]}]({variant})')
		m = len(Ls)
		if len(sub) != m:
			ctx.violation('wrong-subcollection', f'{ic2.kind}: len {len(sub)} expected {m}', ic.w(idx)); continue
		for _ in range(12):
			c = rng.random()
			if c < 0.35 and m:
				i = rng.randrange(-m, m)
				ic2.expect_item(i, Ls[i], 'nested-int')
			elif c < 0.7:
				s = slice(rng.choice([None, rng.randint(-m - 1, m + 1)]), rng.choice([None, rng.randint(-m - 1, m + 1)]), rng.choice([None, 1, -1, 2, -2]))
				ic2.expect_sub(s, Ls[s], 'nested-slice')
			elif m:
				seq = [rng.randrange(-m, m) for _ in range(rng.randint(0, m + 1))]
				ic2.expect_sub(np.array(seq, dtype=rng.choice(['i8', 'i4', 'i2'])), [Ls[i] for i in seq], 'nested-intarray')
		if variant != 'as-is' and m:
			# equal content, equal k-mer parameters: must compare equal to a fresh list-backed collection and to the original sub-collection
			from gambit.sigs.base import SignatureList
			ref = SignatureList(list(Ls), ic.ks, dtype=ic.dt)
			ctx.evals += 1
			if not (sub == ref) or not (ref == sub):
				ctx.violation('eq-wrong:copy', f'{variant} of {ic.kind}[{idx!r}] does not compare equal to a collection with the same signatures and parameters', ic.w(idx))


def all_index_cases(ic: IndexChecker, rng):
	L, n = ic.L, len(ic.L)
	aliasing_cases(ic, rng)
	nested_cases(ic, rng)
	# ---- integers -------------------------------------------------------------------------------
	for i in range(-n - 2, n + 3):
		variants = [('int', i)]
		for dtn in INT_DTYPES:
			dt = np.dtype(dtn)
			if np.iinfo(dt).min <= i <= np.iinfo(dt).max:
				variants.append((f'np.{dtn}', dt.type(i)))
		for cls, v in variants:
			if -n <= i < n:
				ic.expect_item(v, L[i], f'int:{cls}')
			else:
				ic.expect_raise(v, f'int-oob:{cls}')
	# bool is an int for a plain list (L[True] is L[1]): the same here
	if n >= 2:
		ic.expect_item(True, L[1], 'int:bool')
	if n >= 1:
		ic.expect_item(False, L[0], 'int:bool')
	# ---- slices ---------------------------------------------------------------------------------
	rngv = [None] + list(range(-n - 2, n + 3))
	steps = [None, 1, -1, 2, -2, 3, -3, n + 1, -(n + 1)]
	for a in rngv:
		for b in rngv:
			for st in steps:
				s = slice(a, b, st)
				ic.expect_sub(s, L[s], 'slice')
	for s in (slice(np.int64(0), np.int32(n), np.int8(1)), slice(np.uint8(0), None, None), slice(None, np.int64(-1), None)):
		ic.expect_sub(s, L[s], 'slice-npint')
	ic.ctx.count('class:slice-step0')
	try:
		ic.coll[slice(None, None, 0)]
		ic.ctx.violation('bad-index-accepted:slice-step0', 'step 0 accepted', ic.w('::0'))
	except (ValueError, IndexError, TypeError):
		pass
	for s in (slice(0.0, None), slice(None, 1.5), slice(None, None, 1.0), slice('a', None), slice(None, [1])):
		ic.expect_raise(s, 'slice-illtyped', (TypeError, IndexError))
	# ---- boolean masks --------------------------------------------------------------------------
	masks = list(itertools.product([False, True], repeat=n)) if n <= 5 else [tuple(rng.random() < 0.5 for _ in range(n)) for _ in range(40)]
	for m in masks:
		exp = [L[i] for i in range(n) if m[i]]
		if n > 0:
			ic.expect_sub(list(m), exp, 'mask-list')
		ic.expect_sub(np.array(m, dtype=bool), exp, 'mask-ndarray')
	for wrong in {max(n - 1, 0), n + 1, n + 3} - {n}:
		if wrong > 0:
			ic.expect_raise(np.ones(wrong, dtype=bool), 'mask-wrong-length')
			ic.expect_raise([True] * wrong, 'mask-wrong-length')
	# ---- integer index sequences ----------------------------------------------------------------
	seqs = [[]]
	dom = list(range(-n, n))
	if n:
		for ln in range(1, min(n + 2, 4) + 1):
			allc = list(itertools.product(dom, repeat=ln))
			seqs += [list(c) for c in (allc if len(allc) <= 250 else rng.sample(allc, 250))]
		seqs += [[rng.choice(dom) for _ in range(n + 2)] for _ in range(10)]
	for seq in seqs:
		exp = [L[i] for i in seq]
		ic.expect_sub(list(seq), exp, 'intlist')
		for dtn in INT_DTYPES:
			dt = np.dtype(dtn)
			if dt.kind == 'u' and any(i < 0 for i in seq):
				continue
			ic.expect_sub(np.array(seq, dtype=dt), exp, f'intarray:{dtn}')
	# range objects are integer sequences too (NOT slices: negative members count from the end, members outside [-n, n) raise)
	for a in range(-n - 2, n + 3):
		for b in range(-n - 2, n + 3):
			for st in (1, -1, 2, -2):
				r = range(a, b, st)
				if len(r) == 0 and (a, b) != (0, 0):
					continue
				if all(-n <= i < n for i in r):
					ic.expect_sub(r, [L[i] for i in r], 'range-object')
				else:
					ic.expect_raise(r, 'range-object-oob')
	# out of range members
	for seq in ([n], [-n - 1], [0, n] if n else [1], [n + 5, 0] if n else [5], [-n - 2]):
		ic.expect_raise(list(seq), 'intlist-oob')
		ic.expect_raise(np.array(seq, dtype='i8'), 'intarray-oob')
		if all(i >= 0 for i in seq):
			ic.expect_raise(np.array(seq, dtype='u8'), 'intarray-oob')
	# ---- ill-typed ------------------------------------------------------------------------------
	for bad in (1.0, 0.5, None, 'a', 'abc', b'x', 2 + 0j, np.float64(0), np.array([[0]]), np.array([0.0]), np.array([0.5, 1]),
	            np.zeros((2, 2), dtype=int), np.array(['a']), [0.0], [0, 1.5], [[0], [0]], [None], {0: 1}, object()):
		ic.expect_raise(bad, 'illtyped')


def run_index(sh, ctx):
	from gambit.kmers import KmerSpec
	rng = random.Random(f'C20-{ctx.seed}-{sh["name"]}')
	n, kind = sh['n'], sh['ckind']
	for rep, (dt, k, prefix) in enumerate([('u2', 7, 'AT'), ('u8', 20, 'ACG'), ('i4', 9, 'TTG')]):
		if rep and ctx.tier == 'quick' and n > 5:
			continue
		ks = KmerSpec(k, prefix)
		sigs = make_sigs(rng, n, dt)
		coll, closer = build(kind, sigs, ks, dt, ctx, f'{kind}-{n}-{rep}')
		try:
			L = [np.array(s) for s in sigs]
			ic = IndexChecker(ctx, coll, L, ks, dt, kind)
			if len(coll) != n:
				ctx.violation('len', f'len = {len(coll)} expected {n}', dict(kind=kind, n=n))
			all_index_cases(ic, rng)
			if rep == 0:
				ctx.samples.append(dict(kind=kind, n=n, dtype=dt, signatures=[s.tolist() for s in sigs], example='coll[slice(-1, None, -2)] compared with list model'))
		finally:
			closer()


# ---- long collections: narrow index dtypes, buffer-sharing index objects, iteration past the chunk size -------------------------

import array as _array


class ArrayQ(_array.array):
	"""array.array('q'): NumPy reads it through the buffer protocol, so np.asarray(x) shares the caller's memory."""
	def verif_snapshot(self):
		return self.tolist()


class HasArray:
	"""What a pandas Series / xarray object looks like to NumPy: __array__ hands out the object's own storage."""
	def __init__(self, seq, dt):
		self._a = np.array(seq, dtype=dt)
	def __array__(self, dtype=None, copy=None):
		return self._a
	def __len__(self):
		return len(self._a)
	def __repr__(self):
		return f'HasArray({self._a.tolist()}, {self._a.dtype})'
	def verif_snapshot(self):
		return self._a.tolist()


def run_long(sh, ctx):
	from gambit.kmers import KmerSpec
	from gambit.sigs.base import SignatureArray, SignatureList, sigarray_eq
	rng = random.Random(f'C20-long-{ctx.seed}-{sh["name"]}')
	kind = sh['ckind']
	ks = KmerSpec(9, 'AT')
	for n in sh['lens']:
		dt = rng.choice(['u2', 'u4', 'u8'])
		# signature i holds i-dependent values, a few are empty: a shifted or wrapped position is always visible
		sigs = [np.array(sorted({(7 * i + j * j) % 60000 for j in range(i % 4)} | ({i % 60000} if i % 11 else set())), dtype=dt) for i in range(n)]
		coll, closer = build(kind, sigs, ks, dt, ctx, f'long-{kind}-{n}')
		try:
			L = sigs
			ic = IndexChecker(ctx, coll, L, ks, dt, kind)
			ctx.count(f'long-n:{n}')
			# integer arrays of every width: positions near both ends, negative and positive, as far as the dtype can express them
			for dtn in INT_DTYPES:
				d = np.dtype(dtn); info = np.iinfo(d)
				cand = [-n, -n + 1, -n // 2, -129, -128, -127, -5, -1, 0, 1, 5, 126, 127, 128, 129, 255, 256, n // 2, n - 2, n - 1]
				cand = sorted({c for c in cand if -n <= c < n and info.min <= c <= info.max})
				for _ in range(6 if ctx.tier == 'quick' else 20):
					seq = [rng.choice(cand) for _ in range(rng.randint(1, 6))]
					ic.expect_sub(np.array(seq, dtype=d), [L[i] for i in seq], f'long-intarray:{dtn}')
					if any(i < 0 for i in seq):
						ctx.count(f'long-negative:{dtn}')
				for c in cand:
					ic.expect_item(d.type(c), L[c], f'long-int:{dtn}')
			# out of range must still raise for each width that can express it
			for dtn in INT_DTYPES:
				info = np.iinfo(np.dtype(dtn))
				for bad in (n, -n - 1, n + 100):
					if info.min <= bad <= info.max:
						ic.expect_raise(np.array([0, bad], dtype=dtn), f'long-intarray-oob:{dtn}')
			# index objects whose memory NumPy shares: must select like a list and must be left unmodified
			for _ in range(8 if ctx.tier == 'quick' else 30):
				seq = [rng.randrange(-n, n) for _ in range(rng.randint(1, 6))] + [-1]
				rng.shuffle(seq)
				exp = [L[i] for i in seq]
				ic.expect_sub(ArrayQ('q', seq), exp, 'shared-buffer:array.array')
				ic.expect_sub(HasArray(seq, 'i8'), exp, 'shared-buffer:__array__')
				ic.expect_sub(HasArray(seq, 'i4'), exp, 'shared-buffer:__array__')
				ic.expect_sub(tuple(seq) if False else list(seq), exp, 'intlist')
			# slices and masks at this length
			for _ in range(10 if ctx.tier == 'quick' else 40):
				s = slice(rng.choice([None, rng.randint(-n - 3, n + 3)]), rng.choice([None, rng.randint(-n - 3, n + 3)]), rng.choice([None, 1, -1, 2, -3, 127, -128, 1000, -1001]))
				if len(L[s]) <= 400:
					ic.expect_sub(s, L[s], 'long-slice')
			m = np.zeros(n, dtype=bool); m[[rng.randrange(n) for _ in range(12)]] = True; m[n - 1] = True
			ic.expect_sub(m, [L[i] for i in range(n) if m[i]], 'long-mask')
			# iteration, conversion and equality walk every position (file-backed collections read in pieces past some sizes)
			ctx.case(('long-iter', kind, n), nontrivial=True); ctx.count('class:long-iter')
			it = list(coll)
			bad = [i for i in range(n) if i >= len(it) or not np.array_equal(it[i], L[i])]
			if len(it) != n or bad:
				ctx.violation('iteration-differs-from-indexing', f'list({kind} of {n}) has {len(it)} items; first differing position {bad[:1]}', dict(kind=kind, n=n, first_bad=bad[:3]))
			for ctor, nm in ((SignatureList, 'SignatureList'), (SignatureArray, 'SignatureArray')):
				try:
					c2 = ctor(coll)
				except Exception as e:
					ctx.violation('construct-from-collection-raises', f'{nm}({kind} of {n}) raised {type(e).__name__}: {e}', dict(kind=kind, n=n)); continue
				ctx.evals += 1
				bad = [i for i in range(n) if not np.array_equal(c2[i], L[i])] if len(c2) == n else ['len']
				if bad:
					ctx.violation('construct-from-collection-wrong', f'{nm}({kind} of {n}) differs at {bad[:3]}', dict(kind=kind, n=n, ctor=nm))
			same = SignatureList(list(L), ks, dtype=np.dtype(dt))
			diff_last = SignatureList(list(L[:-1]) + [np.array(sorted(set(L[-1].tolist()) ^ {59999}), dtype=dt)], ks, dtype=np.dtype(dt))
			for other, exp_eq, nm in ((same, True, 'equal-content'), (diff_last, False, 'differs-in-last-signature')):
				ctx.case(('long-eq', kind, n, nm), nontrivial=True); ctx.count(f'long-eq:{nm}')
				for x, y in ((coll, other), (other, coll)):
					r = bool(x == y)
					if r != exp_eq:
						ctx.violation(f'eq-wrong:long-{nm}', f'{kind} of {n} signatures == list-backed collection ({nm}) is {r}', dict(kind=kind, n=n, case=nm))
					if bool(sigarray_eq(x, y)) != exp_eq:
						ctx.violation(f'eq-wrong:long-{nm}', f'sigarray_eq({kind} of {n}, list-backed {nm}) is {not exp_eq}', dict(kind=kind, n=n, case=nm))
			if kind == 'hdf5' and n >= 2:
				# two file-backed collections that differ only in the last position
				other, closer2 = build('hdf5', list(diff_last), ks, dt, ctx, f'long-{kind}-{n}-b')
				try:
					ctx.count('long-eq:file-vs-file')
					if bool(coll == other) or bool(other == coll):
						ctx.violation('eq-wrong:long-file-vs-file', f'two file-backed collections of {n} signatures that differ in the last one compare equal', dict(n=n))
				finally:
					closer2()
		finally:
			closer()


# ---- histories ----------------------------------------------------------------------------------

def run_hist(sh, ctx):
	from gambit.sigs.base import SignatureList, SignatureArray
	from gambit.kmers import KmerSpec
	rng = random.Random(f'C20-hist-{ctx.seed}-{sh["sub"]}')
	ks = KmerSpec(6, 'AC')
	uid = itertools.count(1000)

	def newsig():
		# unique id per inserted value; sizes vary from 1 to 5 (a replacement usually changes the size of the signature at that position)
		return np.array(sorted({next(uid) % 4000} | {rng.randrange(50) for _ in range(rng.choice([0, 1, 1, 2, 4]))}), dtype='u2')

	def same(sl, model):
		if len(sl) != len(model):
			return False
		return all(a is b or np.array_equal(a, b) for a, b in zip(list(iter(sl)), model)) and all(np.array_equal(sl[i], model[i]) for i in range(len(model)))

	for h in range(sh['nhist']):
		init = [newsig() for _ in range(rng.randint(0, 5))]
		sl = SignatureList(list(init), ks, dtype=np.dtype('u2'))
		model = list(init)
		trace = []
		held = []      # (sub-collection taken earlier, what a plain list slice held at that moment, how it was taken)
		for step in range(rng.randint(5, sh['steps'])):
			n = len(model)
			if step % 4 == 1 and len(held) < 6:
				how = rng.choice(['[:]', '[0:n]', '[::1]', '[-n-3:n+3]', '[0:]', '[1:]', '[list]', '[mask]'])
				try:
					if how == '[:]': sub, exp_ = sl[:], model[:]
					elif how == '[0:n]': sub, exp_ = sl[0:n], model[0:n]
					elif how == '[::1]': sub, exp_ = sl[::1], model[::1]
					elif how == '[-n-3:n+3]': sub, exp_ = sl[-n - 3:n + 3], model[-n - 3:n + 3]
					elif how == '[0:]': sub, exp_ = sl[0:], model[0:]
					elif how == '[1:]': sub, exp_ = sl[1:], model[1:]
					elif how == '[list]': sub, exp_ = sl[list(range(n))], list(model)
					else: sub, exp_ = sl[np.ones(n, dtype=bool)], list(model)
					held.append((sub, list(exp_), how))
					ctx.count('held_subcollections_of_a_mutable_parent')
					if sub is sl:
						ctx.violation('slice-is-the-parent', f'sl{how} returned the collection itself, not a new collection (a plain list returns a copy)', dict(trace=trace[-20:], how=how))
						break
				except Exception as e:
					ctx.violation('history-op-raises', f'taking sl{how} raised {type(e).__name__}: {e}', dict(trace=trace[-20:]))
					break
			op = rng.choice(['set', 'set', 'setslice', 'del', 'delslice', 'insert', 'append', 'extend', 'pop', 'reverse', 'iadd', 'clear' if rng.random() < 0.1 else 'append', 'set-oob', 'del-oob', 'pop-empty'])
			ctx.count(f'op:{op}')
			try:
				if op == 'set' and n:
					i = rng.randrange(-n, n); v = newsig(); trace.append((op, i)); sl[i] = v; model[i] = v
				elif op == 'setslice':
					a, b = sorted((rng.randint(-1, n + 1), rng.randint(-1, n + 1))); vs = [newsig() for _ in range(rng.randint(0, 3))]
					trace.append((op, a, b, len(vs))); sl[a:b] = vs; model[a:b] = vs
				elif op == 'del' and n:
					i = rng.randrange(-n, n); trace.append((op, i)); del sl[i]; del model[i]
				elif op == 'delslice':
					a, b, st = rng.randint(-1, n + 1), rng.randint(-1, n + 1), rng.choice([None, 1, 2, -1]); trace.append((op, a, b, st)); del sl[a:b:st]; del model[a:b:st]
				elif op == 'insert':
					i = rng.randint(-n - 2, n + 2); v = newsig(); trace.append((op, i)); sl.insert(i, v); model.insert(i, v)
				elif op == 'append':
					v = newsig(); trace.append((op,)); sl.append(v); model.append(v)
				elif op == 'extend':
					vs = [newsig() for _ in range(rng.randint(0, 3))]; trace.append((op, len(vs))); sl.extend(vs); model.extend(vs)
				elif op == 'pop' and n:
					i = rng.choice([None, rng.randrange(-n, n)]); trace.append((op, i))
					a = sl.pop() if i is None else sl.pop(i); b = model.pop() if i is None else model.pop(i)
					if not np.array_equal(a, b):
						ctx.violation('history-pop-value', f'pop({i}) returned {a} expected {b}', dict(trace=trace[-20:]))
				elif op == 'reverse':
					trace.append((op,)); sl.reverse(); model.reverse()
				elif op == 'iadd':
					vs = [newsig() for _ in range(rng.randint(0, 2))]; trace.append((op, len(vs))); sl += vs; model += vs
				elif op == 'clear':
					trace.append((op,)); sl.clear(); model.clear()
				elif op in ('set-oob', 'del-oob'):
					i = rng.choice([n, n + 1, -n - 1]); trace.append((op, i))
					try:
						if op == 'set-oob':
							sl[i] = newsig()
						else:
							del sl[i]
						ctx.violation('history-oob-accepted', f'{op} at {i} on length {n} did not raise', dict(trace=trace[-20:]))
					except IndexError:
						ctx.count('oob_mutations_refused')
				elif op == 'pop-empty' and n == 0:
					try:
						sl.pop(); ctx.violation('history-oob-accepted', 'pop on empty did not raise', dict(trace=trace[-20:]))
					except IndexError:
						ctx.count('oob_mutations_refused')
				else:
					continue
			except Exception as e:
				ctx.violation('history-op-raises', f'{op} raised {type(e).__name__}: {e}', dict(trace=trace[-20:]))
				break
			ctx.evals += 1
			bad_held = [(how_, [x.tolist() for x in sub_][:5], [x.tolist() for x in exp_][:5]) for sub_, exp_, how_ in held if len(sub_) != len(exp_) or not all(np.array_equal(a_, b_) for a_, b_ in zip(sub_, exp_))]
			if bad_held:
				ctx.violation('earlier-subcollection-changed-by-mutation-of-parent', f'after {trace[-1] if trace else None}: the sub-collection taken earlier with sl{bad_held[0][0]} now reads {bad_held[0][1]}, it held {bad_held[0][2]}', dict(trace=trace[-30:]))
				break
			if not same(sl, model):
				ctx.violation('history-diverged', f'after {trace[-1]}: {[x.tolist() for x in sl]} vs model {[x.tolist() for x in model]}', dict(trace=trace[-30:]))
				break
			# equality + index sweep
			# equality after EVERY step, both ways round and against both kinds of collection (the collection has been compared, sized and
			# edited before: nothing remembered from an earlier state may enter the answer)
			other = SignatureArray(model, ks, dtype=np.dtype('u2')) if model else SignatureList([], ks, dtype=np.dtype('u2'))
			other2 = SignatureList(list(model), ks, dtype=np.dtype('u2'))
			ctx.count('equality_checks_after_a_mutation', 3)
			if not (sl == other) or not (other == sl) or not (sl == other2):
				ctx.violation('history-eq', f'after {trace[-1] if trace else None}: the collection compares unequal to a fresh collection holding the same signatures ({[x.tolist() for x in model][:6]})', dict(trace=trace[-30:]))
				break
			if model and step % 3 == 0:
				j_ = rng.randrange(len(model))
				diff_ = list(model); diff_[j_] = np.array(sorted(set(model[j_].tolist()) ^ {4001}), dtype='u2')
				if sl == SignatureList(diff_, ks, dtype=np.dtype('u2')) or SignatureArray(diff_, ks, dtype=np.dtype('u2')) == sl:
					ctx.violation('history-eq', f'after {trace[-1] if trace else None}: the collection compares EQUAL to one that differs in signature {j_}', dict(trace=trace[-30:]))
					break
			if step % 5 == 0:
				for s in (slice(None, None, -1), slice(1, None, 2)):
					got = sl[s]
					if [x.tolist() for x in got] != [x.tolist() for x in model[s]]:
						ctx.violation('history-slice', f'slice {s} after history differs', dict(trace=trace[-30:]))
		ctx.case(('hist', h, sh['sub'], len(trace), [str(t) for t in trace[:40]]), nontrivial=len(trace) > 2,
		         sample=dict(history=[str(t) for t in trace[:12]], final_len=len(model)) if h == 0 else None)
		ctx.count('histories')
		ctx.count('history_steps', len(trace))


# ---- equality -----------------------------------------------------------------------------------

def run_eq(sh, ctx):
	from gambit.sigs.base import SignatureArray, SignatureList, AnnotatedSignatures
	from gambit.kmers import KmerSpec
	rng = random.Random(f'C20-eq-{ctx.seed}')
	kinds = ['sigarray', 'siglist', 'hdf5', 'annotated']

	def mk(kind, sigs, ks, dt, tag):
		if kind == 'annotated':
			return AnnotatedSignatures(SignatureArray(sigs, ks, dtype=np.dtype(dt)), [f'x{i}' for i in range(len(sigs))]), (lambda: None)
		return build(kind, sigs, ks, dt, ctx, tag)

	for t in range(sh['n']):
		n = rng.randint(0, 6)
		dt = rng.choice(['u2', 'u4', 'u8'])
		k, p = rng.choice([(7, 'AT'), (8, 'AT'), (7, 'ATG')])
		ks = KmerSpec(k, p)
		sigs = make_sigs(rng, n, dt)
		variant = rng.choice(['same', 'same', 'elem', 'len', 'k', 'prefix', 'dtype', 'order', 'prefix-case', 'boundary', 'boundary'])
		if variant == 'boundary':
			# the same concatenated content, a signature boundary in a different place
			if n < 2:
				sigs = sigs + make_sigs(rng, 2 - n, dt); n = 2
			i = rng.randrange(n - 1)
			a = np.array(sorted(rng.sample(range(300), rng.randint(1, 6))), dtype=dt)
			p1, p2 = rng.sample(range(len(a) + 1), 2) if len(a) >= 1 else (0, 0)
			sigs = sigs[:i] + [a[:p1], a[p1:]] + sigs[i + 2:]
		sigs2, ks2, dt2, equal = [s.copy() for s in sigs], ks, dt, True
		if variant == 'boundary':
			sigs2[i], sigs2[i + 1] = a[:p2].copy(), a[p2:].copy()
			equal = False
		if variant == 'elem' and n:
			i = rng.randrange(n); sigs2[i] = np.array(sorted(set(sigs2[i].tolist()) ^ {299}), dtype=dt); equal = False
		elif variant == 'len':
			if n and rng.random() < 0.5:
				sigs2 = sigs2[:-1]
			else:
				sigs2 = sigs2 + [np.array([5], dtype=dt)]
			equal = False
		elif variant == 'k':
			ks2 = KmerSpec(k + 1, p); equal = False
		elif variant == 'prefix':
			ks2 = KmerSpec(k, p + 'A'); equal = False
		elif variant == 'dtype':
			dt2 = 'u8' if dt != 'u8' else 'u4'; sigs2 = [s.astype(dt2) for s in sigs2]
		elif variant == 'order' and n >= 2:
			sigs2 = sigs2[::-1]; equal = all(np.array_equal(a, b) for a, b in zip(sigs, sigs2))
		elif variant == 'prefix-case':
			ks2 = KmerSpec(k, p.lower())
		elif variant in ('elem', 'order'):
			variant = 'same'
		k1, k2 = rng.choice(kinds), rng.choice(kinds)
		a, ca = mk(k1, sigs, ks, dt, f'eqa{t}')
		b, cb = mk(k2, sigs2, ks2, dt2, f'eqb{t}')
		try:
			ctx.case(('eq', t, variant, k1, k2, n), nontrivial=True, sample=dict(variant=variant, kinds=[k1, k2], n=n, expected_equal=equal) if t < 2 else None)
			ctx.count(f'eq:{variant}'); ctx.count(f'eq-kinds:{k1}/{k2}')
			for x, y, nm in ((a, b, 'a==b'), (b, a, 'b==a')):
				r = (x == y)
				if bool(r) != equal or not isinstance(r, (bool, np.bool_)):
					ctx.violation(f'eq-wrong:{variant}', f'{nm} is {r!r} expected {equal} ({k1} vs {k2}, variant {variant})', dict(variant=variant, kinds=[k1, k2], sigs=[s.tolist() for s in sigs], sigs2=[s.tolist() for s in sigs2], ks=[repr(ks), repr(ks2)]))
				if bool(x != y) == bool(r):
					ctx.violation('eq-ne-inconsistent', f'== and != agree ({k1} vs {k2})', dict(variant=variant))
			for other in (list(sigs), 5, None, 'x', tuple(sigs)):
				try:
					r = (a == other)
				except Exception as e:
					ctx.violation('eq-raises', f'== with {type(other).__name__} raised {type(e).__name__}', dict(kind=k1))
					continue
				if r is not False and r is not NotImplemented:
					ctx.violation('eq-noncollection', f'== with {type(other).__name__} gave {r!r}', dict(kind=k1))
				ctx.evals += 1
		finally:
			ca(); cb()


def run_randindex(sh, ctx):
	from gambit.kmers import KmerSpec
	rng = random.Random(f'C20-ri-{ctx.seed}-{sh["sub"]}')
	for t in range(sh['n']):
		n = rng.randint(8, 30)
		kind = rng.choice(KINDS)
		dt = rng.choice(['u2', 'u4', 'u8', 'i8'])
		ks = KmerSpec(rng.randint(5, 20), 'AT')
		sigs = make_sigs(rng, n, dt)
		coll, closer = build(kind, sigs, ks, dt, ctx, f'ri{t}')
		try:
			L = [np.array(s) for s in sigs]
			ic = IndexChecker(ctx, coll, L, ks, dt, kind)
			for _ in range(60):
				c = rng.random()
				if c < 0.4:
					s = slice(rng.choice([None, rng.randint(-n - 3, n + 3)]), rng.choice([None, rng.randint(-n - 3, n + 3)]), rng.choice([None, 1, -1, 2, -2, 5, -7, n, -n]))
					ic.expect_sub(s, L[s], 'slice')
				elif c < 0.7:
					seq = [rng.randrange(-n, n) for _ in range(rng.randint(0, n + 5))]
					dtn = rng.choice(INT_DTYPES)
					if np.dtype(dtn).kind == 'u':
						seq = [i % n for i in seq]
					ic.expect_sub(np.array(seq, dtype=dtn), [L[i] for i in seq], f'intarray:{dtn}')
				elif c < 0.9:
					m = np.array([rng.random() < 0.5 for _ in range(n)])
					ic.expect_sub(m, [L[i] for i in range(n) if m[i]], 'mask-ndarray')
				else:
					i = rng.randint(-n - 3, n + 2)
					if -n <= i < n:
						ic.expect_item(i, L[i], 'int:int')
					else:
						ic.expect_raise(i, 'int-oob:int')
		finally:
			closer()


def run_shard(sh, ctx):
	{'index': run_index, 'hist': run_hist, 'eq': run_eq, 'randindex': run_randindex, 'long': run_long}[sh['kind']](sh, ctx)


def finalize(merged, tier, seed, inconclusive):
	c = merged['counters']
	for n in ['class:slice', 'class:mask-ndarray', 'class:mask-wrong-length', 'class:intarray:u8', 'class:intarray:i1', 'class:int:np.u8', 'class:int-oob:int',
	          'class:illtyped', 'class:slice-illtyped', 'class:aliasing', 'held_subcollections_of_a_mutable_parent', 'class:range-object', 'class:range-object-oob', 'class:sub-collection-iterated:empty', 'class:nested:as-is', 'class:nested-slice', 'class:long-iter', 'class:shared-buffer:array.array', 'class:shared-buffer:__array__', 'long-negative:i1', 'long-negative:i2', 'long-eq:file-vs-file', 'histories', 'op:setslice', 'op:delslice', 'oob_mutations_refused', 'eq:same', 'eq:k', 'eq:prefix', 'eq:elem', 'eq:dtype', 'eq:boundary']:
		if c.get(n, 0) == 0:
			inconclusive.append(f'class never observed: {n}')
	return dict(exhaustive=True, exhaustive_note='index-* shards enumerate every int, slice and (for n<=5) mask over the stated ranges for collection lengths 0..7; histories and equality pairs are sampled')
