"""C01 - a signature is exactly the set of prefix-anchored k-mers on both strands.

Monitor: every call of the real calc_signature / find_kmers is compared with the set definition in
vf.oracles.sigdef (independent of gambit)."""

import itertools
import random

import numpy as np

from vf.oracles import sigdef as S

LEVEL = 'exploration'
RULE = ('cases = (k, prefix, list of byte sequences); exhaustive over all sequences of an alphabet up to a length '
        'bound x (k, prefix) grid, plus seeded class-based generation (planted/overlapping/palindromic prefix '
        'occurrences, matches flush with either end, arbitrary bytes, all k 1..32); a case is non-trivial when the '
        'prefix occurs on at least one strand; distinct = distinct (k, prefix, sequences) by hash')
ASSUMPTIONS = ['oracle vf/oracles/sigdef.py is the statement\'s definition', 'str inputs are ASCII (non-ASCII text cannot be encoded by the library and is outside "sequences over arbitrary bytes" for str)']
REACH = [
	'gambit.kmers:find_kmers', 'gambit.kmers:KmerMatch.kmer_indices', 'gambit.kmers:KmerMatch.kmer_index',
	'gambit.kmers:KmerMatch.kmer', 'gambit.kmers:KmerMatch.full_indices',
	'gambit.sigs.calc:accumulate_kmers', 'gambit.sigs.calc:calc_signature',
	'gambit.sigs.calc:ArrayAccumulator.signature', 'gambit.sigs.calc:SetAccumulator.signature',
	'gambit.sigs.calc:SetAccumulator.add', 'gambit.sigs.calc:ArrayAccumulator.add',
]

PREFIXES_1 = [b'A', b'C', b'G', b'T']
PREFIXES_2 = [b'AT', b'AA', b'AC', b'CG', b'TA', b'GT', b'TT', b'GC', b'CA', b'TG', b'AG', b'CC', b'CT', b'GA', b'GG', b'TC']
SPECIAL_PREFIXES = [b'AT', b'ACGT', b'GATC', b'AA', b'ATAT', b'AAA', b'ATGAC', b'ATG', b'TTAA', b'CCCC', b'ACA', b'GCGC', b'TATA', b'AACGTT']


def shards(tier, seed):
	out = []
	if tier == 'quick':
		nparts, maxlen, alpha, prefixes, ks = 12, 6, 'ACGTN', PREFIXES_1 + PREFIXES_2[:6], [1, 2, 3]
		nclass, ncases = 4, 2500
	else:
		nparts, maxlen, alpha, prefixes, ks = 48, 8, 'ACGTN', PREFIXES_1 + PREFIXES_2, [1, 2, 3]
		nclass, ncases = 32, 12000
	for i in range(nparts):
		out.append(dict(name=f'exh-{i}', kind='exh', part=i, nparts=nparts, maxlen=maxlen, alpha=alpha,
		                prefixes=[p.decode() for p in prefixes], ks=ks))
	# small extra alphabet incl. lower case and a junk byte, shorter bound
	out.append(dict(name='exh-case', kind='exh', part=0, nparts=1, maxlen=5 if tier == 'quick' else 6, alpha='AaTtCX',
	                prefixes=['A', 'T', 'AT', 'TA', 'CA'], ks=[1, 2]))
	for i in range(nclass):
		out.append(dict(name=f'classes-{i}', kind='classes', n=ncases, sub=i))
	out.append(dict(name='long', kind='long', n=6 if tier == 'quick' else 40))
	for i, (k, pf) in enumerate([(11, 'ATGAC'), (5, 'AT')] if tier == 'quick' else [(11, 'ATGAC'), (5, 'AT'), (21, 'ACG'), (32, 'GATC'), (1, 'A')]):
		out.append(dict(name=f'blocks-{i}', kind='blocks', k=k, prefix=pf, top=21 if tier == 'quick' else 23))
	out.append(dict(name='asan-classes', kind='classes', n=1200 if tier == 'quick' else 8000, sub=1000, sanitizer='asan'))
	out.append(dict(name='asan-exh', kind='exh', part=0, nparts=40 if tier == 'quick' else 8, maxlen=6, alpha='ACGTN', prefixes=['A', 'AT', 'CG'], ks=[1, 2, 3], sanitizer='asan'))
	for s_ in out:
		if s_.get('kind') in ['classes'] and not s_.get('sanitizer'):
			s_['contracts'] = ['C01']
	out.append(dict(name='suite-contracts', kind='suite-contracts', which=['C01'], tests=['tests/test_kmers.py', 'tests/sigs/test_calc.py']))
	return out


# ------------------------------------------------------------------------------------------------

def _seq_variants(seqs):
	"""yield (typename, list of sequence objects)"""
	from Bio.Seq import Seq
	yield 'bytes', [bytes(s) for s in seqs]
	yield 'bytearray', [bytearray(s) for s in seqs]
	if all(max(s, default=0) < 128 for s in seqs):
		yield 'str', [s.decode('ascii') for s in seqs]
	yield 'Seq', [Seq(bytes(s)) for s in seqs]


class Checker:
	def __init__(self, ctx):
		import gambit.kmers as gk
		import gambit.sigs.calc as gc
		self.gk, self.gc, self.ctx = gk, gc, ctx
		self.kspecs = {}
		self.rot = 0

	def kspec(self, k, prefix):
		key = (k, prefix)
		if key not in self.kspecs:
			self.kspecs[key] = self.gk.KmerSpec(k, prefix)
		return self.kspecs[key]

	def _cmp(self, got, exp, edt, k, prefix, seqs, what):
		ctx = self.ctx
		if not isinstance(got, np.ndarray):
			ctx.violation('sig-not-array', f'{what}: result is {type(got).__name__}', self._w(k, prefix, seqs, what))
			return False
		ok = True
		if got.dtype != np.dtype(edt):
			ctx.violation('sig-dtype', f'{what}: dtype {got.dtype} expected {edt}', self._w(k, prefix, seqs, what))
			ok = False
		gl = got.tolist()
		if gl != exp:
			if sorted(set(gl)) == exp:
				ctx.violation('sig-not-strictly-increasing', f'{what}: right set, wrong order/duplicates: {gl[:20]}', self._w(k, prefix, seqs, what))
			else:
				extra = sorted(set(gl) - set(exp))[:5]
				missing = sorted(set(exp) - set(gl))[:5]
				ctx.violation('sig-mismatch', f'{what}: extra={extra} missing={missing} (got {len(gl)}, expected {len(exp)})', self._w(k, prefix, seqs, what))
			ok = False
		return ok

	@staticmethod
	def _w(k, prefix, seqs, what):
		return dict(k=k, prefix=prefix.decode(), seqs=[bytes(s).hex() if len(s) <= 20000 else f'<{len(s)} bytes, sha256 {__import__("hashlib").sha256(bytes(s)).hexdigest()}: regenerated by replaying the shard>' for s in seqs][:5],
		            seqs_repr=[repr(bytes(s))[:200] for s in seqs][:5], variant=what)

	def check(self, k, prefix, seqs, variants='rotate', check_find=True, sample=False):
		"""seqs: list[bytes]"""
		ctx, gc = self.ctx, self.gc
		ks = self.kspec(k, prefix)
		occ = []
		expset = set()
		for s in seqs:
			o = S.occurrences(k, prefix, s)
			occ.append(o)
			for _, _, kmer in o:
				i = S.kmer_index(kmer)
				if i is not None:
					expset.add(i)
		exp = sorted(expset)
		edt = S.dtype_for(k)
		nocc = sum(len(o) for o in occ)
		key = (k, prefix.decode(), [bytes(s).hex() for s in seqs])
		smp = None
		if sample and nocc:
			smp = dict(k=k, prefix=prefix.decode(), seqs=[repr(bytes(s))[:120] for s in seqs], expected_signature=exp[:20])
		ctx.case(key, nontrivial=nocc > 0, sample=smp)
		if nocc:
			ctx.count('cases_with_occurrence')
			if exp:
				ctx.count('cases_nonempty_signature')
			ndrop = nocc - sum(1 for o in occ for (_, _, km) in o if S.kmer_index(km) is not None)
			if ndrop:
				ctx.count('cases_with_dropped_nonACGT_kmer')
			if any(st == 0 for o in occ for (st, _, _) in o) and any(st == 1 for o in occ for (st, _, _) in o):
				ctx.count('cases_both_strands')
			lp = len(prefix)
			for s, o in zip(seqs, occ):
				if any(p + lp + k == len(s) for (_, p, _) in o):
					ctx.count('cases_match_flush_with_end')
					break
			for o in occ:
				ps = sorted(p for (st, p, _) in o if st == 0)
				if any(b - a < lp + k for a, b in zip(ps, ps[1:])):
					ctx.count('cases_overlapping_matches')
					break

		# --- primary: bytes, default accumulator --------------------------------------------------
		single = len(seqs) == 1
		arg = bytes(seqs[0]) if single else [bytes(s) for s in seqs]
		got = gc.calc_signature(ks, arg)
		ctx.count('calls:bytes/default')
		self._cmp(got, exp, edt, k, prefix, seqs, 'bytes/default')
		# results handed out earlier stay what they were (a signature that is a view of some internal buffer would change under
		# later calls): a few earlier results are kept alive and looked at again now
		held = self.__dict__.setdefault('held', [])
		self.ncalls = getattr(self, 'ncalls', 0) + 1
		for (g0, e0, w0) in (held if self.ncalls % 8 == 0 else ()):
			ctx.evals += 1
			if not isinstance(g0, np.ndarray) or g0.tolist() != e0:
				ctx.violation('earlier-result-changed', f'a signature returned by an earlier call now reads {g0.tolist()[:8] if isinstance(g0, np.ndarray) else g0!r}, it was {e0[:8]}', w0)
				held.clear()
				break
		if self.ncalls % 8 == 7 and isinstance(got, np.ndarray) and got.tolist() == exp and len(exp) and len(seqs[0]) <= 5000:
			held.append((got, list(exp), self._w(k, prefix, seqs, 'held earlier result')))
			if len(held) > 6:
				held.pop(0)
			ctx.count('earlier_results_rechecked')

		# --- variants -----------------------------------------------------------------------------
		allv = []
		for tname, objs in _seq_variants(seqs):
			for aname in ('default', 'set', 'array'):
				if aname == 'array' and k > (9 if variants == 'rotate' else 11):
					continue
				if (tname, aname) == ('bytes', 'default'):
					continue
				allv.append((tname, aname, objs))
		if variants == 'rotate':
			self.rot += 1
			chosen = [allv[self.rot % len(allv)]]
		else:
			chosen = allv
		for tname, aname, objs in chosen:
			acc = None if aname == 'default' else (gc.SetAccumulator(k) if aname == 'set' else gc.ArrayAccumulator(k))
			a = objs[0] if single else (objs if self.rot % 2 else iter(objs))
			got2 = gc.calc_signature(ks, a, accumulator=acc)
			ctx.evals += 1
			ctx.count(f'calls:{tname}/{aname}')
			self._cmp(got2, exp, edt, k, prefix, seqs, f'{tname}/{aname}')

		# --- one mutable buffer, refilled in place for every sequence (streaming contigs through a reused bytearray): the object is
		# the same from call to call, its content is not
		if max((len(s) for s in seqs), default=0) <= 100000:
			if not hasattr(self, 'buf'):
				self.buf = bytearray()
			es = set()
			acc_got = set()
			okb = True
			for s in seqs:
				self.buf[:] = s
				g3 = gc.calc_signature(ks, self.buf)
				ctx.evals += 1
				e3 = exp if single else S.signature(k, prefix, [bytes(s)])
				if not isinstance(g3, np.ndarray) or g3.tolist() != e3:
					ctx.violation('sig-mismatch', f'bytearray refilled in place and searched again: got {getattr(g3, "tolist", lambda: g3)()[:8]} expected {e3[:8]} (the buffer held another sequence during the previous call)', self._w(k, prefix, [s], 'bytearray/reused-buffer'))
					okb = False
					break
				if bytes(self.buf) != bytes(s):
					ctx.violation('caller-buffer-modified', 'calc_signature modified the bytearray it was given', self._w(k, prefix, [s], 'bytearray/reused-buffer'))
					break
			ctx.count('calls:bytearray/reused-buffer')
			# and once more through find_kmers directly, after an in-place change to lower case / reversal
			if okb and seqs and seqs[0] and self.ncalls % 4 == 0:
				self.buf[:] = seqs[0]
				list(self.gk.find_kmers(ks, self.buf))
				alt = bytes(seqs[0]).swapcase()[::-1] if self.rot % 2 else bytes(seqs[0]).lower()
				self.buf[:] = alt
				gm_ = sorted((bool(m.reverse), int(m.pos)) for m in self.gk.find_kmers(ks, self.buf))
				em_ = sorted(S.expected_matches(k, prefix, alt))
				ctx.evals += 1
				if gm_ != em_:
					ctx.violation('find-kmers-mismatch', f'find_kmers on a bytearray changed in place since the previous call: {gm_[:6]} expected {em_[:6]}', self._w(k, prefix, [alt], 'find_kmers/reused-buffer'))

		# --- find_kmers level ---------------------------------------------------------------------
		if check_find:
			for s in seqs:
				expm = S.expected_matches(k, prefix, s)
				ms = list(self.gk.find_kmers(ks, bytes(s)))
				gotm = [(bool(m.reverse), int(m.pos)) for m in ms]
				ctx.evals += 1
				ctx.count('find_kmers_calls')
				if len(gotm) != len(set(gotm)) or set(gotm) != expm:
					ctx.violation('find-kmers-mismatch', f'matches {sorted(gotm)[:10]} expected {sorted(expm)[:10]}', self._w(k, prefix, [s], 'find_kmers'))
					continue
				su = S.upper(s)
				for m in ms:
					full = su[m.full_indices()]
					kk = su[m.kmer_indices()]
					if m.reverse:
						full, kk = S.revcomp(full), S.revcomp(kk)
					ctx.count('matches_checked')
					if full != S.upper(prefix) + kk or len(kk) != k or S.upper(m.kmer()) != kk:
						ctx.violation('kmer-content', f'match {m.reverse, m.pos}: full={full!r} kmer()={m.kmer()!r}', self._w(k, prefix, [s], 'KmerMatch'))


# ------------------------------------------------------------------------------------------------

def run_shard(sh, ctx):
	ch = Checker(ctx)
	if sh['kind'] == 'exh':
		_run_exh(sh, ctx, ch)
	elif sh['kind'] == 'classes':
		_run_classes(sh, ctx, ch)
	elif sh['kind'] == 'long':
		_run_long(sh, ctx, ch)
	elif sh['kind'] == 'blocks':
		_run_blocks(sh, ctx, ch)


def _run_exh(sh, ctx, ch):
	alpha = sh['alpha'].encode()
	idx = 0
	grid = [(k, p.encode()) for k in sh['ks'] for p in sh['prefixes']]
	ctx.notes['exhaustive_scopes'] = [dict(alphabet=sh['alpha'], maxlen=sh['maxlen'], ks=sh['ks'], prefixes=sh['prefixes'])]
	for L in range(0, sh['maxlen'] + 1):
		for tup in itertools.product(alpha, repeat=L):
			idx += 1
			if idx % sh['nparts'] != sh['part']:
				continue
			s = bytes(tup)
			for k, p in grid:
				ch.check(k, p, [s], sample=(idx % 977 == 0))


def _rand_seq(rng, n, alpha):
	return bytes(rng.choice(alpha) for _ in range(n))


ALPHAS = {
	'acgt': b'ACGT', 'acgtn': b'ACGTN', 'mixed': b'ACGTacgtNn', 'iupac': b'ACGTRYKMSWBDHVNacgtn-',
	'bytes': bytes(range(256)), 'at': b'AT', 'lower': b'acgt',
	'ws': b'ACGTACGTacgt \n\t\r',      # text as it comes out of a file: blanks and line breaks inside, before and after the nucleotides
}


def gen_case(rng):
	"""One class-based case: (k, prefix, [seqs], class name)."""
	kclass = rng.random()
	if kclass < 0.5:
		k = rng.randint(1, 8)
	elif kclass < 0.8:
		k = rng.randint(9, 16)
	else:
		k = rng.randint(17, 32)
	if rng.random() < 0.5:
		prefix = rng.choice(SPECIAL_PREFIXES)
	else:
		prefix = _rand_seq(rng, rng.randint(1, 6), b'ACGT')
	if rng.random() < 0.15:
		prefix = prefix.lower()  # KmerSpec upper-cases the prefix
	P = S.upper(prefix)
	lp = len(P)
	aname = rng.choice(list(ALPHAS))
	alpha = ALPHAS[aname]
	nseq = rng.choice([1, 1, 1, 2, 3])
	seqs = []
	for _ in range(nseq):
		lclass = rng.random()
		if lclass < 0.25:
			n = rng.choice([0, 1, lp, k, max(k - 1, 0), k // 2 + 1, max(lp + k - 1, 0), lp + k, lp + k + 1, lp + k + 2, 2 * (lp + k)])
		elif lclass < 0.9:
			n = rng.randint(0, 300)
		else:
			n = rng.randint(300, 3000)
		s = bytearray(_rand_seq(rng, n, alpha))
		# plant occurrences
		for _ in range(rng.choice([0, 1, 2, 4, 8])):
			pat = P if rng.random() < 0.5 else S.revcomp(P)
			if rng.random() < 0.3:
				pat = pat.lower()
			if rng.random() < 0.3:
				pat = pat + pat[-(lp // 2 or 1):]  # self-overlap fodder
			where = rng.choice(['start', 'end', 'end-k', 'k', 'rand', 'rand'])
			if len(s) < len(pat):
				continue
			if where == 'start':
				p = 0
			elif where == 'end':
				p = len(s) - len(pat)
			elif where == 'end-k':
				p = max(len(s) - len(pat) - k, 0)
			elif where == 'k':
				p = min(k, len(s) - len(pat))
			else:
				p = rng.randint(0, len(s) - len(pat))
			s[p:p + len(pat)] = pat
		if aname == 'ws' and rng.random() < 0.6:
			s = bytearray(rng.choice([b' ', b'\n', b'\t \n', b'  '])) + s + bytearray(rng.choice([b'', b'\n', b' \n']))
		seqs.append(bytes(s))
	return k, prefix, seqs, aname


def failing_call(ctx, ch, rng, k, prefix):
	"""A call that raises part-way through a collection (after earlier sequences were searched). The statement says nothing about
	it - what matters is that the NEXT calls in this process are unaffected (state left behind by a failed call)."""
	ks = ch.kspec(k, prefix)
	good = (S.upper(prefix) + bytes(rng.choice(b'ACGT') for _ in range(k + 5))) * 3
	bad = rng.choice(['non-ascii-str', 'not-a-sequence', 'none'])
	item = {'non-ascii-str': 'ACGT\u00e9ACGT', 'not-a-sequence': 12345, 'none': None}[bad]
	try:
		ch.gc.calc_signature(ks, [good, good.lower(), item])
	except Exception as e:
		ctx.count('failing_calls_raised')
		ctx.seen('failing_call_errors', type(e).__name__)
	else:
		ctx.count('failing_calls_returned')


def _run_classes(sh, ctx, ch):
	rng = random.Random(f'C01-{ctx.seed}-{sh["sub"]}')
	for i in range(sh['n']):
		k, prefix, seqs, aname = gen_case(rng)
		if i % 7 == 3:
			failing_call(ctx, ch, rng, k, prefix)   # then the regular, checked case below uses the same k
		ctx.count(f'alphabet:{aname}')
		ctx.seen('k_values', k)
		ctx.seen('prefix_lengths', len(prefix))
		full = (i % 10 == 0) or aname == 'ws'     # white space must be exercised through the text (str) channel too
		ch.check(k, prefix, seqs, variants='all' if full else 'rotate', check_find=(i % 3 == 0), sample=(i % 501 == 0))


def _run_boundary_kmers(ctx, ch):
	"""The k-mers with the smallest and the largest index for every k (all-A = 0, all-T = 4^k - 1, which is 2^64 - 1 for k = 32 - the
	value a native routine might use as a sentinel), after the prefix on the forward strand and on the reverse strand, in both cases."""
	comp = bytes.maketrans(b'ACGT', b'TGCA')
	for k in range(1, 33):
		for prefix in (b'ATGAC', b'AT', b'C'):
			for km in (b'T' * k, b'A' * k, b'T' * (k - 1) + b'G', b'G' + b'T' * (k - 1), (b'TG' * k)[:k]):
				fwd = prefix + km
				rev = fwd.translate(comp)[::-1]
				for s in (fwd, rev, b'CC' + fwd + b'CC', fwd.lower(), b'GG' + rev.lower() + b'G', fwd + rev):
					ch.check(k, prefix, [s], variants='rotate', check_find=False)
		ctx.seen('k_values', k)
	ctx.count('boundary_kmers_all_k')


def _run_long(sh, ctx, ch):
	rng = random.Random(f'C01-long-{ctx.seed}')
	_run_boundary_kmers(ctx, ch)
	for i in range(sh['n']):
		k = rng.choice([5, 8, 11, 12, 16, 21, 32])
		prefix = rng.choice([b'ATGAC', b'AT', b'ACG', b'GATC'])
		n = rng.choice([10_000, 50_000, 100_000])
		seqs = [_rand_seq(rng, n, rng.choice([b'ACGT', b'ACGTN', b'ACGTacgt']))]
		ctx.count('long_sequences')
		ch.check(k, prefix, seqs, variants='all' if i % 3 == 0 else 'rotate', check_find=False)


def _run_blocks(sh, ctx, ch):
	"""Chromosome-sized sequences (2-8 MiB) that are almost empty: one occurrence is planted at every offset around every
	power-of-two position (2^10 .. 2^top) and around multiples of 2^20, on either strand. Any implementation that works through the
	sequence in blocks, windows or buffers of such a size has its seams exactly there."""
	rng = random.Random(f'C01-blocks-{ctx.seed}-{sh["name"]}')
	k, prefix = sh['k'], sh['prefix'].encode()
	tl = k + len(prefix)
	comp = bytes.maketrans(b'ACGT', b'TGCA')
	# filler made of letters that can form neither the prefix nor its reverse complement
	cand = [c for c in (b'CG', b'AT', b'AG', b'CT', b'AC', b'GT', b'C', b'A', b'G', b'T') if not (set(prefix) <= set(c)) and not (set(prefix.translate(comp)) <= set(c))]
	fill = cand[0]
	top = sh['top']
	bounds = sorted({1 << b for b in range(10, top + 1)} | {m << 20 for m in range(1, (1 << (top - 20)) + 1)} | {3 << 19})
	n = bounds[-1] + 4 * tl + 7
	offsets = list(range(-tl - 2, 3))
	ctx.notes['exhaustive_scopes'] = [f'k={k} prefix={sh["prefix"]}: one occurrence at every offset {offsets[0]}..{offsets[-1]} from each of {len(bounds)} block boundaries up to 2^{top}, both strands']
	base = bytearray(rng.choice(fill) for _ in range(4096)) * (n // 4096 + 1)
	for oi, off in enumerate(offsets):
		seq = bytearray(base[:n])
		planted = 0
		for bi, B in enumerate(bounds):
			kmer = bytes(rng.choice(b'ACGT') for _ in range(k))
			occ = prefix + kmer
			if (bi + oi) % 2:
				occ = occ.translate(comp)[::-1]         # the occurrence lies on the reverse strand
			if rng.random() < 0.3:
				occ = occ.lower()
			pos = B + off
			if pos < 0 or pos + tl > n:
				continue
			seq[pos:pos + tl] = occ
			planted += 1
		ctx.count('block_boundary_occurrences_planted', planted)
		ctx.count('long_sequences')
		ch.check(k, prefix, [bytes(seq)], variants='all' if oi % 7 == 0 else 'rotate', check_find=(oi % 5 == 0))
	# the same through a FASTA file (one long record, line-wrapped)
	from vf.oracles.fasta import write_fasta
	from gambit.seq import SequenceFile
	path = ctx.workdir / f'{sh["name"]}.fasta'
	write_fasta(path, [bytes(seq)], width=70)
	got = ch.gc.calc_file_signature(ch.kspec(k, prefix), SequenceFile(path, 'fasta'))
	exp = S.signature(k, prefix, [bytes(seq)])
	ctx.evals += 1
	ctx.count('block_files')
	if got.tolist() != exp:
		missing = sorted(set(exp) - set(got.tolist()))
		ctx.violation('sig-wrong', f'calc_file_signature on one {n}-nt record: {len(got)} k-mers, definition gives {len(exp)}; missing {missing[:5]}', dict(k=k, prefix=sh['prefix'], n=n))
	path.unlink()


def finalize(merged, tier, seed, inconclusive):
	c = merged['counters']
	need = ['block_boundary_occurrences_planted', 'boundary_kmers_all_k', 'alphabet:ws', 'calls:bytearray/reused-buffer', 'earlier_results_rechecked', 'calls:bytes/default', 'calls:str/set', 'calls:Seq/array', 'calls:bytearray/default', 'find_kmers_calls',
	        'cases_match_flush_with_end', 'cases_overlapping_matches', 'cases_with_dropped_nonACGT_kmer', 'cases_both_strands', 'failing_calls_raised']
	for n in need:
		if c.get(n, 0) == 0:
			inconclusive.append(f'class never observed: {n}')
	merged['notes'].setdefault('sanitizer_stage', {})
	if not merged['notes'].get('overlay_loaded', {}).get('asan') and not merged['notes']['sanitizer_stage']:
		inconclusive.append('ASan/UBSan overlay was never loaded')
	ks = merged['sets'].get('k_values', set())
	if tier == 'thorough' and len(ks) < 32:
		inconclusive.append(f'only {len(ks)} of 32 k values exercised')
	return dict(exhaustive=True, exhaustive_note='the exh-* shards enumerate every sequence over the stated alphabets up to the stated length; the class shards are sampled')
