"""C08 - query output rows: one per input, in order, correctly labelled, context-free.

Monitor: the rows/items written by `gambit query` (csv / json / archive) are compared with the oracle
row of each genome (reference-definition signatures, exact distances, taxonomy model) and with the row the
same genome gets when queried alone, over batches, orderings, input channels, -c, progress and formats."""

import csv
import io
import os
import json
import gzip
import random
import shutil

import numpy as np

from vf.oracles import sigdef as S
from vf.oracles import taxonomy as TX
from vf.oracles.fasta import write_fasta
from vf.props import _cli

LEVEL = 'exploration'
RULE = ('cases = (database, batch of 1..30 query genomes incl. duplicates of one genome under different names and empty-signature genomes, '
        'ordering, channel in {positional, -l/--ldir relative or absolute with blank lines, gzip copies, -s file from signatures create, -s '
        'file from the oracle}, -c, progress, format, --strict) + query() with chunk sizes {1,2,n,n+1}; non-trivial = batch of >=2; '
        'distinct = (world, batch, channel, options) by hash')
ASSUMPTIONS = ['input path fields and timestamps are not content of the genome', 'with tied minimum distances the closest genome is the first in database order (C09)']
REACH = ['gambit.cli.query:query_cmd', 'gambit.cli.common:get_sequence_files', 'gambit.cli.common:strip_seq_file_ext', 'gambit.query:query_parse', 'gambit.query:query',
         'gambit.sigs.calc:calc_file_signatures']


def shards(tier, seed):
	n = 10 if tier == 'quick' else 40
	out = [dict(name=f'batch-{i}', kind='batch', sub=i, nworlds=2 if tier == 'quick' else 4, ncmds=8 if tier == 'quick' else 30) for i in range(n)]
	out.append(dict(name='console-script', kind='console', ncmds=4 if tier == 'quick' else 20))
	return out


class QWorld:
	"""A sequence world + its query genomes written as files in several layouts."""

	def __init__(self, ctx, rng, tag):
		from vf import world as W
		self.rng = rng
		self.w = W.sequence_world(rng, ng=rng.randint(3, 9), nq=rng.randint(3, 6), names='plain')
		self.dir = ctx.workdir / tag
		self.dir.mkdir()
		self.db = self.w.write_db(self.dir / 'db')
		self.qdir = self.dir / 'queries'
		self.qdir.mkdir()
		(self.qdir / 'sub').mkdir()
		self.files = []     # dict(path, name, label, qi)
		stems = list(_cli.NAME_STEMS); rng.shuffle(stems)
		for qi, q in enumerate(self.w.queries):
			for copy in range(rng.choice([1, 1, 2, 3])):
				stem = (stems[(qi + copy) % len(stems)] if rng.random() < 0.6 else 'sample') + f'_{qi}_{copy}'
				ext = rng.choice(['.fasta', '.fa', '.fna', '.fasta.gz', '.fa.gz', '.gz', '', '.txt', '.fasta.fasta'])
				gz = ext.endswith('.gz') and rng.choice([True, True, 'multi'])     # 'multi': several gzip members (bgzip / cat a.gz b.gz)
				sub = rng.random() < 0.25
				name = stem + ext
				p = (self.qdir / 'sub' / name) if sub else (self.qdir / name)
				write_fasta(p, q['contigs'], width=rng.choice([0, 60, 80]), eol=rng.choice([b'\n', b'\r\n']), gz=gz)
				self.files.append(dict(path=p, rel=('sub/' + name) if sub else name, label=_cli.expected_label(name), qi=qi))
		# DIFFERENT genomes whose derived labels collide (same basename in another directory / another extension)
		self.collide = []
		nq = len(self.w.queries)
		if nq >= 2:
			picks = rng.sample(range(nq), min(3, nq))
			for (qi, (rel, gz)) in zip(picks, [('collide.fasta', False), ('sub/collide.fasta', False), ('collide.fna.gz', True)]):
				p = self.qdir / rel
				write_fasta(p, self.w.queries[qi]['contigs'], gz=gz)
				f = dict(path=p, rel=rel, label='collide', qi=qi)
				self.files.append(f); self.collide.append(f)
		# symbolic links: the row label is derived from the name the user gave (the link), the content from its target
		for f in list(self.files[:2]):
			ln = self.qdir / f'link_to_{len(self.files)}.fna'
			try:
				os.symlink(f['path'], ln)
				self.files.append(dict(path=ln, rel=ln.name, label=_cli.expected_label(ln.name), qi=f['qi']))
			except OSError:
				pass
		# a second file with the same label as an existing one (duplicate labels)
		f0 = self.files[0]
		p = self.qdir / 'sub' / os.path.basename(f0['path']) if f0['path'].parent == self.qdir else self.qdir / os.path.basename(f0['path'])
		if not p.exists():
			shutil.copy(f0['path'], p)
			self.files.append(dict(path=p, rel=str(p.relative_to(self.qdir)), label=f0['label'], qi=f0['qi']))

	# ---- oracle row content per query genome ------------------------------------------------------------------
	def content(self, qi, strict=False):
		w = self.w
		if not strict:
			e = w.expected_nonstrict(qi)
			gi = e['closest_first']
			per = e['per'][gi]
			return dict(closest_key=w.genomes[gi]['key'], closest_desc=w.genomes[gi]['description'], dist=e['dmin'],
			            report=None if per['report'] is None else w.tinfo[per['report'].i]['key'], report_name=None if per['report'] is None else per['report'].name,
			            next=None if per['next'] is None else w.tinfo[per['next'].i]['key'], pred=None if per['pred'] is None else w.tinfo[per['pred'].i]['key'])
		es = w.expected_strict(qi)
		e = w.expected_nonstrict(qi)
		gi = e['closest_first']
		rep = TX.reportable(es['pred'])
		return dict(closest_key=w.genomes[gi]['key'], closest_desc=w.genomes[gi]['description'], dist=e['dmin'], pred=es['pred_key'],
		            report=None if rep is None else w.tinfo[rep.i]['key'], report_name=None if rep is None else rep.name,
		            next=None if e['per'][gi]['next'] is None else w.tinfo[e['per'][gi]['next'].i]['key'], success=es['success'])


def parse_output(fmt, text):
	"""-> list of (label, content dict) per row/item, in output order."""
	if fmt == 'csv':
		out = []
		for row in csv.DictReader(io.StringIO(text, newline='')):
			out.append((row['query'], dict(report_name=row['predicted.name'] or None, dist=float(np.float32(row['closest.distance'])), closest_desc=row['closest.description'],
			                                next_name=row['next.name'] or None, raw=tuple(v for k, v in row.items() if k != 'query'))))
		return out
	data = json.loads(text)
	out = []
	if fmt == 'json':
		for it in data['items']:
			cg = it['closest_genomes'][0]
			out.append((it['query']['name'], dict(report=None if it['predicted_taxon'] is None else it['predicted_taxon']['key'], next=None if it['next_taxon'] is None else it['next_taxon']['key'],
			                                      closest_key=cg['genome']['key'], dist=float(np.float32(cg['distance'])),
			                                      raw=json.dumps(dict(p=it['predicted_taxon'], n=it['next_taxon'], c=it['closest_genomes']), sort_keys=True))))
		return out
	from vf.world import parse_archive
	for it in parse_archive(text):
		out.append((it['label'], dict(pred=it['predicted'], report=it['report'], next=it['next'], closest_key=it['closest']['genome'], dist=float(np.float32(it['closest']['distance'])),
		                              success=it['success'], raw=json.dumps({k: v for k, v in it.items() if k != 'label'}, sort_keys=True))))
	return out


def compare(ctx, qw, fmt, strict, got, exp_labels, qis, w_, what, alone_cache):
	if len(got) != len(qis):
		ctx.violation('row-count', f'{what}: {len(got)} rows/items for {len(qis)} inputs', w_)
		return
	for pos, ((label, content), elabel, qi) in enumerate(zip(got, exp_labels, qis)):
		ctx.evals += 1
		if label != elabel:
			ctx.violation('row-label', f'{what}: row {pos} labelled {label!r} expected {elabel!r}', w_)
			return
		exp = qw.content(qi, strict)
		for f, v in content.items():
			if f == 'raw' or f == 'next_name':
				continue
			if f in exp and exp[f] != v and not (strict and fmt == 'csv' and f == 'report_name' and False):
				ctx.violation('row-content-not-this-genome', f'{what}: row {pos} ({label!r}) {f} = {v!r} but the oracle for this genome gives {exp[f]!r}', dict(w_, row=pos))
				return
		key = (fmt, strict, qi)
		if key in alone_cache and alone_cache[key] != content['raw']:
			ctx.violation('row-differs-from-alone-run', f'{what}: row {pos} ({label!r}) differs from the row the same genome gets when queried alone', dict(w_, row=pos, batch=str(content['raw'])[:300], alone=str(alone_cache[key])[:300]))
			return


def run_cmd(args, console=False, cwd=None):
	from vf import clidrv
	if console:
		code, so, se = clidrv.run_subproc(args, cwd=cwd)
		return code, so, se, None
	return clidrv.run_inproc(args, cwd=cwd)


def run_batch(sh, ctx):
	rng = random.Random(f'C08-{ctx.seed}-{sh["sub"]}')
	for wi in range(sh['nworlds']):
		qw = QWorld(ctx, rng, rng.choice([f'w{wi}', f'w{wi} with space', f'w{wi}_\u00fcn\u00efcode']))
		w = qw.w
		alone = {}
		# ---- alone runs (one genome, positional, no -c) for each format ------------------------------------------
		for qi in range(len(w.queries)):
			f = next(x for x in qw.files if x['qi'] == qi)
			for fmt in ('csv', 'json', 'archive'):
				for strict in ((False, True) if fmt == 'archive' or qi % 3 == 0 else (False,)):
					out = qw.dir / f'alone_{qi}.{fmt}'
					code, so, se, exc = run_cmd(['-d', qw.db, 'query', '-f', fmt, '-o', out, '--no-progress'] + (['--strict'] if strict else []) + [f['path']])
					ctx.count('alone_runs')
					if code != 0:
						ctx.violation('command-fails', f'alone run exited {code}: {se[-200:]} {exc}', dict(file=str(f['path'])))
						continue
					rows = parse_output(fmt, open(out, newline='').read())
					if len(rows) == 1:
						alone[(fmt, strict, qi)] = rows[0][1]['raw']
						compare(ctx, qw, fmt, strict, rows, [f['label']], [qi], dict(alone=True, fmt=fmt, file=f['rel']), f'alone {fmt}', {})
					else:
						ctx.violation('row-count', f'alone run gave {len(rows)} rows', dict(file=str(f['path'])))
		# ---- batches ---------------------------------------------------------------------------------------------
		for ci in range(sh['ncmds']):
			nb = rng.choice([1, 2, 3, 5, 8, 15, 30] * 3 + [70])
			batch = [rng.choice(qw.files) for _ in range(nb)] if rng.random() < 0.5 else rng.sample(qw.files, min(nb, len(qw.files)))
			if qw.collide and rng.random() < 0.35:
				batch = batch + rng.sample(qw.collide, rng.randint(2, len(qw.collide)))
				ctx.count('batches_with_label_collision_of_different_genomes')
			order = rng.choice(['given', 'reversed', 'shuffled'])
			if order == 'reversed':
				batch = batch[::-1]
			elif order == 'shuffled':
				rng.shuffle(batch)
			channel = rng.choice(['positional', 'positional', 'listfile-rel', 'listfile-abs', 'sigfile-create', 'sigfile-oracle'])
			fmt = rng.choice(['csv', 'csv', 'json', 'archive'])
			strict = rng.random() < (0.4 if fmt == 'archive' else 0.2)
			cores = rng.choice([None, 1, 2, 3, 8, 16])
			progress = rng.random() < 0.4
			out = qw.dir / f'out{ci}.{fmt}'
			if ci % 2 == 1:
				# the output path already holds the (much longer) results of an earlier run: the new results replace them
				out.write_text(('query,predicted.name\n' + 'old_row,old taxon\n' * 400) if fmt == 'csv' else ('{"items": [' + ', '.join(['{"old": 1}'] * 4000) + ']}\n'))
				ctx.count('query_runs_with_existing_larger_output_file')
			dbvia = rng.choice(['-d', '-d', 'env', '--db'])
			ctx.count(f'db_given_via:{dbvia}')
			dbargs = [] if dbvia == 'env' else [dbvia, qw.db]
			args = dbargs + ['query', '-f', fmt, '-o', out] + (['--progress'] if progress else ['--no-progress']) + (['--strict'] if strict else []) + (['-c', cores] if cores else [])
			labels = [f['label'] for f in batch]
			qis = [f['qi'] for f in batch]
			cwd = None
			if channel == 'positional':
				if rng.random() < 0.3:
					cwd = qw.qdir
					args += ['./' + f['rel'] for f in batch]   # './' so that names beginning with '-' are not taken for options
				else:
					args += [f['path'] for f in batch]
			elif channel.startswith('listfile'):
				lf = qw.dir / f'list{ci}.txt'
				lines = []
				for f in batch:
					lines.append(str(f['path']) if channel == 'listfile-abs' else f['rel'])
					if rng.random() < 0.2:
						lines.append('' if rng.random() < 0.5 else '   ')
				lf.write_text('\n'.join(lines) + '\n')
				if channel == 'listfile-rel' and ci % 2 == 0:
					# the working directory holds files with the SAME relative names and OTHER genomes in them: list entries are relative to
					# --ldir, never to the working directory
					decoy = qw.dir / f'cwd{ci}'
					decoy.mkdir(exist_ok=True)
					from vf.oracles.fasta import write_fasta as _wfd
					for f in batch:
						(decoy / f['rel']).parent.mkdir(parents=True, exist_ok=True)
						if not (decoy / f['rel']).exists():
							_wfd(decoy / f['rel'], [bytes(rng.choice(b'ACGT') for _ in range(rng.randint(300, 900)))], gz=f['rel'].endswith('.gz'))
					cwd = decoy
					ctx.count('listfile_runs_with_same_named_decoys_in_cwd')
				args += ['-l', lf, '--ldir', qw.qdir if channel == 'listfile-rel' or rng.random() < 0.5 else '/nonexistent-base-is-ignored-for-absolute' if False else qw.qdir]
			elif channel == 'sigfile-create':
				sf = qw.dir / f'q{ci}.gs'
				idopt = []
				if rng.random() < 0.4:
					# explicit ids for the stored signatures: these are then the row labels
					custom = [f'custom id {j} ' + rng.choice(['x', 'y,z', 'ü']) for j in range(len(batch))]
					idf = qw.dir / f'ids{ci}.txt'
					idf.write_text(''.join(c_ + '\n' for c_ in custom))
					idopt = ['-i', idf]
					labels = [c_.strip() for c_ in custom]
					ctx.count('sigfile_with_explicit_ids')
				c2, so2, se2, exc2 = run_cmd(['signatures', 'create', '-k', w.k, '-p', w.prefix, '-o', sf, '--no-progress'] + idopt + (['-c', rng.choice([1, 2, 5])] if rng.random() < 0.5 else []) + [f['path'] for f in batch])
				if c2 != 0:
					ctx.violation('command-fails', f'signatures create exited {c2}: {se2[-200:]} {exc2}', dict(files=[f['rel'] for f in batch]))
					continue
				args += ['-s', sf]
			else:
				ids = _cli.hostile_ids(rng, len(batch))
				sf = qw.dir / f'q{ci}.gs'
				w.write_query_sigs(sf, which=qis, labels=ids)
				labels = ids
				args += ['-s', sf]
			if dbvia == 'env':
				os.environ['GAMBIT_DB_PATH'] = str(qw.db)
			try:
				code, so, se, exc = run_cmd(args, cwd=cwd)
			finally:
				os.environ.pop('GAMBIT_DB_PATH', None)
			w_ = dict(channel=channel, fmt=fmt, strict=strict, cores=cores, progress=progress, order=order, batch=[f['rel'] for f in batch][:30], labels=labels[:30], stderr=se[-200:], exc=exc)
			ctx.case(('batch', sh['sub'], wi, channel, fmt, strict, cores, progress, [f['rel'] for f in batch]), nontrivial=len(batch) >= 2,
			         sample=dict(channel=channel, fmt=fmt, cores=cores, batch=[f['rel'] for f in batch][:5], labels=labels[:5]) if ci < 1 else None)
			ctx.count(f'channel:{channel}'); ctx.count(f'format:{fmt}{"/strict" if strict else ""}'); ctx.count(f'cores:{cores}'); ctx.count(f'progress:{progress}')
			if len(set(labels)) < len(labels):
				ctx.count('batches_with_duplicate_labels')
			if len(set(qis)) < len(qis):
				ctx.count('batches_with_same_genome_twice')
			if code != 0:
				ctx.violation('command-fails', f'gambit query exited {code}: {se[-200:]} {exc}', w_)
				continue
			try:
				rows = parse_output(fmt, open(out, newline='').read())
			except Exception as e:
				ctx.violation('output-unparseable', f'{fmt} output cannot be parsed: {type(e).__name__}: {e}', w_)
				continue
			compare(ctx, qw, fmt, strict, rows, labels, qis, w_, f'{channel} {fmt}', alone)
			# history independence: the same command in a fresh console-script process must write the same bytes (this process has run many
			# other commands on other databases before) - timestamps excluded
			if ci % 4 == 1 and fmt in ('csv', 'json'):
				out2 = qw.dir / f'fresh{ci}.{fmt}'
				args2 = [str(out2) if a is out else a for a in args]
				if dbvia == 'env':
					os.environ['GAMBIT_DB_PATH'] = str(qw.db)
				try:
					c2, so2, se2, _ = run_cmd(args2, console=True, cwd=cwd)
				finally:
					os.environ.pop('GAMBIT_DB_PATH', None)
				ctx.count('fresh_process_differentials')
				if c2 != 0:
					ctx.violation('command-fails', f'same command in a fresh process exited {c2}: {se2[-200:]}', w_)
				else:
					a_, b_ = open(out, newline='').read(), open(out2, newline='').read()
					if fmt == 'json':
						ja, jb = json.loads(a_), json.loads(b_)
						for j_ in (ja, jb):
							j_.pop('timestamp', None)
						a_, b_ = json.dumps(ja, sort_keys=True), json.dumps(jb, sort_keys=True)
					if a_ != b_:
						ctx.violation('output-depends-on-process-history', f'{fmt} output of the same command differs between this long-lived process and a fresh process', dict(w_, inproc=a_[:300], fresh=b_[:300]))
		# ---- chunk size through the API -----------------------------------------------------------------------------
		from gambit.db import ReferenceDatabase
		from gambit.query import query, QueryParams
		db = ReferenceDatabase.load_from_dir(qw.db)
		try:
			n = len(w.genomes)
			qs = [np.array(q['sig'], dtype=w.dtype) for q in w.queries]
			base = None
			for chunk in (1, 2, n, n + 1, None):
				res = query(db, qs, QueryParams(chunksize=chunk))
				summ = [(None if it.report_taxon is None else it.report_taxon.key, float(it.classifier_result.closest_match.distance), it.classifier_result.closest_match.genome.key) for it in res.items]
				ctx.count('api_chunk_runs'); ctx.evals += len(summ)
				exp = [(qw.content(qi)['report'], qw.content(qi)['dist'], qw.content(qi)['closest_key']) for qi in range(len(qs))]
				if summ != exp:
					ctx.violation('row-content-not-this-genome', f'query() with chunksize={chunk}: {summ[:3]} expected {exp[:3]}', dict(chunksize=chunk))
		finally:
			db.signatures.close(); db.session.close()
		shutil.rmtree(qw.dir, ignore_errors=True)


def run_console(sh, ctx):
	"""A slice through the real console script: exit codes and the stdout default."""
	rng = random.Random(f'C08-console-{ctx.seed}')
	qw = QWorld(ctx, rng, 'cw')
	for ci in range(sh['ncmds']):
		batch = rng.sample(qw.files, min(rng.randint(1, 5), len(qw.files)))
		fmt = rng.choice(['csv', 'json'])
		to_stdout = rng.random() < 0.6
		out = qw.dir / f'c{ci}.{fmt}'
		args = ['-d', qw.db, 'query', '-f', fmt, '--no-progress'] + ([] if to_stdout else ['-o', out]) + (['-c', rng.choice([1, 4])] if rng.random() < 0.5 else []) + [f['path'] for f in batch]
		code, so, se, _ = run_cmd(args, console=True)
		w_ = dict(console=True, fmt=fmt, stdout=to_stdout, batch=[f['rel'] for f in batch], stderr=se[-300:])
		ctx.case(('console', ci, fmt, to_stdout, [f['rel'] for f in batch]), nontrivial=len(batch) >= 2)
		ctx.count('console_script_runs'); ctx.count(f'console_stdout:{to_stdout}')
		if code != 0:
			ctx.violation('command-fails', f'console script exited {code}: {se[-300:]}', w_)
			continue
		text = so if to_stdout else open(out, newline='').read()
		try:
			rows = parse_output(fmt, text)
		except Exception as e:
			ctx.violation('output-unparseable', f'{fmt} on {"stdout" if to_stdout else "file"} cannot be parsed: {type(e).__name__}: {e}; starts {text[:100]!r}', w_)
			continue
		compare(ctx, qw, fmt, False, rows, [f['label'] for f in batch], [f['qi'] for f in batch], w_, f'console {fmt}', {})


def run_shard(sh, ctx):
	{'batch': run_batch, 'console': run_console}[sh['kind']](sh, ctx)


def finalize(merged, tier, seed, inconclusive):
	c = merged['counters']
	need = ['alone_runs', 'channel:positional', 'channel:listfile-rel', 'channel:listfile-abs', 'channel:sigfile-create', 'channel:sigfile-oracle', 'format:csv', 'format:json', 'format:archive',
	        'format:archive/strict', 'cores:16', 'cores:None', 'progress:True', 'batches_with_duplicate_labels', 'batches_with_same_genome_twice', 'batches_with_label_collision_of_different_genomes', 'api_chunk_runs', 'console_script_runs', 'fresh_process_differentials']
	for n in need:
		if c.get(n, 0) == 0:
			inconclusive.append(f'class never observed: {n}')
	return dict(exhaustive=False)
