"""C18 - using a reference database never modifies it.

Monitor: stat + sha256 snapshots of the genome file and the signature file after every step of seeded
histories of read-side commands and library calls (failing ones interleaved), a class-level SQLAlchemy
cursor listener (no write statement may reach SQLite), the default session's commit()/flush() behaviour,
and - for console-script histories - every write-class system call on the two files seen by strace -f -y."""

import os
import re
import sys
import json
import random
import shutil
import hashlib
import subprocess
import threading

import numpy as np

LEVEL = 'exploration'
RULE = ('cases = histories (length 5..60) over {query (files, -s, strict, csv/json/archive), dist --use-db, signatures info -d (plain/json/ids), '
        'signatures create --db-params, tree, ReferenceDatabase.load_from_dir, query(), jaccarddist_matrix on the file-backed signatures, ORM '
        'attribute edits + add/delete + flush + autoflushing query + commit (must raise) + rollback, failing commands, two commands at once} '
        'on copies of synthetic databases and of the bundled test database; non-trivial = every history; distinct = history by hash')
ASSUMPTIONS = ['opening the SQLite file O_RDWR is not an event (SQLite always does); only write-class system calls count',
               'atime is not part of "a single byte of the file"']
REACH = ['gambit.db.sqla:ReadOnlySession.flush', 'gambit.db.sqla:ReadOnlySession.commit', 'gambit.db.sqla:file_sessionmaker', 'gambit.sigs.hdf5:load_signatures_hdf5',
         'gambit.cli.common:CLIContext._init_genomes']
WRITE_SYSCALLS = 'write,pwrite64,pwritev,pwritev2,ftruncate,truncate,fallocate,rename,renameat,renameat2,unlink,unlinkat,openat,open,creat,link,linkat,chmod,fchmod,utimensat,msync,mmap'
SQL_WRITE = re.compile(r'^\s*(INSERT|UPDATE|DELETE|CREATE|DROP|ALTER|REPLACE|VACUUM|REINDEX|ATTACH)\b', re.I)


def shards(tier, seed):
	n = 12 if tier == 'quick' else 32
	out = [dict(name=f'hist-{i}', kind='hist', sub=i, nhist=5 if tier == 'quick' else 12, maxlen=25 if tier == 'quick' else 60) for i in range(n)]
	out.append(dict(name='strace', kind='strace', nhist=1 if tier == 'quick' else 6, steps=6 if tier == 'quick' else 10))
	out.append(dict(name='testdb', kind='hist', sub=99, nhist=1, maxlen=20, testdb=True))
	out.append(dict(name='damaged', kind='hist', sub=77, nhist=5 if tier == 'quick' else 15, maxlen=8, damaged=True))
	return out


def snap(path):
	st = os.stat(path)
	with open(path, 'rb') as f:
		h = hashlib.sha256(f.read()).hexdigest()
	return dict(sha256=h, size=st.st_size, inode=st.st_ino, mtime_ns=st.st_mtime_ns, ctime_ns=st.st_ctime_ns, mode=st.st_mode)


class Watch:
	def __init__(self, ctx, dbdir):
		self.ctx = ctx
		self.dbdir = dbdir
		self.files = sorted(p for p in dbdir.iterdir() if p.suffix in ('.gdb', '.db', '.gs', '.h5'))
		self.base = {p: snap(p) for p in self.files}
		self.listing = sorted(x.name for x in dbdir.iterdir())

	def check(self, step, hist):
		ok = True
		for p in self.files:
			if not p.exists():
				self.ctx.violation('database-file-removed', f'after step {step}: {p.name} no longer exists', dict(history=hist))
				return False
			s = snap(p)
			diff = [k for k in s if s[k] != self.base[p][k]]
			self.ctx.evals += 1
			if diff:
				kind = 'database-bytes-changed' if 'sha256' in diff or 'size' in diff else 'database-file-touched'
				self.ctx.violation(f'{kind}:{p.suffix}', f'after step {step}: {p.name} changed in {diff}', dict(history=hist, step=step))
				ok = False
		now = sorted(x.name for x in self.dbdir.iterdir())
		if now != self.listing:
			extra = sorted(set(now) - set(self.listing))
			# new files next to the database are not a change of the genome file or the signature file: recorded, not judged
			self.ctx.count('observation:database_directory_listing_changed')
			self.ctx.notes.setdefault('directory_changes', []).append(dict(step=step, new=extra, removed=sorted(set(self.listing) - set(now))))
			self.listing = now
		return ok


class SqlMonitor:
	def __init__(self, ctx):
		from sqlalchemy import event
		from sqlalchemy.engine import Engine
		self.ctx, self.event, self.Engine = ctx, event, Engine
		self.current = None
		self.dbpath = None
		event.listen(Engine, 'before_cursor_execute', self._cb)

	def _cb(self, conn, cursor, statement, parameters, context, executemany):
		verb = statement.strip().split(None, 1)[0].upper() if statement.strip() else '?'
		url = str(conn.engine.url)
		if self.dbpath and self.dbpath in url:
			self.ctx.count(f'sql:{verb}')
			if SQL_WRITE.match(statement) or (verb == 'PRAGMA' and '=' in statement):
				self.ctx.violation('sql-write-statement', f'{verb} statement reached the database during step {self.current}: {statement[:160]}', dict(step=self.current))

	def close(self):
		self.event.remove(self.Engine, 'before_cursor_execute', self._cb)


# ---- steps ---------------------------------------------------------------------------------------------------

class Hist:
	def __init__(self, ctx, rng, tag, testdb=False, journal=None, damage=None):
		from vf import world as W
		from vf.props import _cli
		self.ctx, self.rng = ctx, rng
		self.dir = ctx.workdir / tag
		self.dir.mkdir()
		self.testdb = testdb
		self.damage = damage
		if testdb:
			src = __import__('vf.core', fromlist=['REPO']).REPO / 'tests' / 'data' / 'testdb_210818'
			self.db = self.dir / 'db'
			self.db.mkdir()
			shutil.copy(src / 'ref-genomes.gdb', self.db / 'ref-genomes.gdb')
			shutil.copy(src / 'ref-signatures.gs', self.db / 'ref-signatures.gs')
			self.k, self.prefix = 6, 'AT'
			self.qfiles = sorted((src / 'queries' / 'genomes').glob('*.fasta'))[:6]
			self.w = None
		else:
			self.w = W.sequence_world(rng, ng=rng.randint(3, 7), nq=4, names='plain')
			# released databases match signatures by accession: use every identifier attribute, not only the key
			self.w.id_attr = rng.choice(['key', 'genbank_acc', 'refseq_acc', 'ncbi_id'])
			ctx.count(f'id_attr:{self.w.id_attr}')
			self.db = self.w.write_db(self.dir / 'db')
			self.k, self.prefix = self.w.k, self.w.prefix
			from vf.oracles.fasta import write_fasta
			self.qfiles = []
			for qi, q in enumerate(self.w.queries):
				p = self.dir / f'q{qi}.fasta'
				write_fasta(p, q['contigs'], gz=False)
				self.qfiles.append(p)
		# make the files read-write for the user (a read-only mode bit would hide write attempts behind EACCES)
		for p in self.db.iterdir():
			os.chmod(p, 0o644)
		# a genome file that is incomplete or is not gambit's at all: read-side commands fail on it - and still must not write to it
		if damage:
			import sqlite3
			gdb = next(p for p in self.db.iterdir() if p.suffix in ('.gdb', '.db'))
			if damage == 'table-dropped':
				con = sqlite3.connect(str(gdb)); con.execute('PRAGMA foreign_keys=OFF'); con.execute(f'DROP TABLE {rng.choice(["taxa", "genome_annotations"])}'); con.commit(); con.close()
			elif damage == 'index-dropped':
				con = sqlite3.connect(str(gdb))
				idx = [r[0] for r in con.execute("select name from sqlite_master where type='index' and sql is not null")]
				if idx:
					con.execute(f'DROP INDEX "{rng.choice(idx)}"')
				con.commit(); con.close()
			elif damage == 'zero-length':
				gdb.write_bytes(b'')
			elif damage == 'foreign-sqlite':
				gdb.unlink()
				con = sqlite3.connect(str(gdb)); con.execute('CREATE TABLE notes (id INTEGER PRIMARY KEY, body TEXT)'); con.execute("INSERT INTO notes (body) VALUES ('another application')"); con.commit(); con.close()
			elif damage == 'truncated':
				data = gdb.read_bytes(); gdb.write_bytes(data[:max(len(data) // 2, 4096)])
			ctx.count(f'genome_file_damage:{damage}')
		# a genome file of realistic size (the released database is tens of megabytes; SQLite's default page cache is 2000 KiB): an
		# unrelated table with a few megabytes of rows makes the synthetic file cross that size
		self.large = (not damage) and rng.random() < 0.4
		if self.large:
			import sqlite3
			gdb = next(p for p in self.db.iterdir() if p.suffix in ('.gdb', '.db'))
			con = sqlite3.connect(str(gdb))
			con.execute('CREATE TABLE IF NOT EXISTS verif_padding (id INTEGER PRIMARY KEY, body BLOB)')
			con.executemany('INSERT INTO verif_padding (body) VALUES (?)', [(bytes(rng.randrange(256) for _ in range(64)) * 64,) for _ in range(700)])
			con.commit(); con.close()
			ctx.count('genome_file_larger_than_2000KiB' if gdb.stat().st_size > 2000 * 1024 else 'genome_file_padding_too_small')
		# the genome file in either SQLite journal mode: write-ahead logging is a persistent property of the file (header bytes 18/19)
		self.journal = journal or rng.choice(['delete', 'delete', 'wal'])
		if self.journal == 'wal' and damage in (None, 'index-dropped'):
			import sqlite3
			gdb = next(p for p in self.db.iterdir() if p.suffix in ('.gdb', '.db'))
			con = sqlite3.connect(str(gdb))
			mode = con.execute('PRAGMA journal_mode=WAL').fetchone()[0]
			con.close()
			ctx.count(f'genome_file_journal_mode:{mode}')
		else:
			ctx.count('genome_file_journal_mode:delete')
		self.qsig = None
		self.n = 0

	def out(self, ext):
		self.n += 1
		return self.dir / f'o{self.n}.{ext}'

	def cli(self, args):
		from vf import clidrv
		return clidrv.run_inproc(args)

	# each step returns a short description; exceptions inside *failing* steps are expected
	def step_query_files(self):
		fmt = self.rng.choice(['csv', 'json', 'archive'])
		files = self.rng.sample(self.qfiles, self.rng.randint(1, min(3, len(self.qfiles))))
		strict = self.rng.random() < 0.3
		code, *_ = self.cli(['-d', self.db, 'query', '-f', fmt, '-o', self.out(fmt), '--no-progress'] + (['--strict'] if strict else []) + (['-c', 2] if self.rng.random() < 0.3 else []) + files)
		return f'query files -f {fmt}{" --strict" if strict else ""} -> {code}'

	def step_output_inside_db_dir(self):
		"""Results written INTO the database directory (a user working inside it), twice to the same path: the two database files stay
		untouched and the database still loads afterwards."""
		o = self.db / 'results.csv'
		r1 = self.cli(['-d', self.db, 'query', '-o', o, '--no-progress'] + [str(f) for f in self.qfiles[:2]])
		r2 = self.cli(['-d', self.db, 'query', '-f', 'json', '-o', self.db / 'results.json', '--no-progress', str(self.qfiles[0])])
		r3 = self.cli(['-d', self.db, 'query', '-o', o, '--no-progress', str(self.qfiles[0])])
		if r3[0] != 0 and not self.damage:
			self.ctx.violation('database-unusable-after-read-side-use', f'query failed (exit {r3[0]}) after results were written into the database directory: {r3[2][-200:]} {r3[3]}', dict(step='output_inside_db_dir'))
		for f in ('results.csv', 'results.json'):
			try:
				(self.db / f).unlink()
			except OSError:
				pass
		return f'query -o <dbdir>/results.csv -> {r1[0]}, json -> {r2[0]}, again -> {r3[0]}'

	def step_sigs_create(self):
		self.qsig = self.out('gs')
		code, *_ = self.cli(['-d', self.db, 'signatures', 'create', '--db-params', '-o', self.qsig, '--no-progress'] + self.qfiles[:3])
		if code != 0:
			self.qsig = None
		return f'signatures create --db-params -> {code}'

	def step_query_sigs(self):
		if self.qsig is None:
			return self.step_sigs_create()
		code, *_ = self.cli(['-d', self.db, 'query', '-o', self.out('csv'), '--no-progress', '-s', self.qsig])
		return f'query -s -> {code}'

	def step_dist_usedb(self):
		code, *_ = self.cli(['-d', self.db, 'dist', '-o', self.out('csv'), '--no-progress', '--use-db'] + sum([['-q', f] for f in self.qfiles[:2]], []))
		return f'dist --use-db -> {code}'

	def step_info(self):
		opt = self.rng.choice([[], ['-j'], ['-j', '-p'], ['-i']])
		code, *_ = self.cli(['-d', self.db, 'signatures', 'info', '-d'] + opt)
		return f'signatures info -d {" ".join(opt)} -> {code}'

	def step_tree(self):
		code, *_ = self.cli(['tree', '--no-progress', '-k', self.k, '-p', self.prefix] + self.qfiles[:3])
		return f'tree -> {code}'

	def step_fail(self):
		kind = self.rng.choice(['bad-option', 'params-mismatch', 'unreadable-input', 'unwritable-output', 'missing-sigfile', 'dist-mismatch'])
		if kind == 'bad-option':
			args = ['-d', self.db, 'query', '--no-such-option', self.qfiles[0]]
		elif kind == 'params-mismatch':
			args = ['-d', self.db, 'signatures', 'create', '--db-params', '-k', 9, '-p', 'AC', '-o', self.out('gs'), self.qfiles[0]]
		elif kind == 'unreadable-input':
			bad = self.dir / 'garbage.fasta'
			bad.write_bytes(b'\xff\xfe\x00' * 50)
			args = ['-d', self.db, 'query', '-o', self.out('csv'), '--no-progress', bad]
		elif kind == 'unwritable-output':
			args = ['-d', self.db, 'dist', '-o', '/proc/nonexistent/x.csv', '--no-progress', '--use-db', '-q', self.qfiles[0]]
		elif kind == 'missing-sigfile':
			args = ['-d', self.db, 'query', '-o', self.out('csv'), '-s', self.dir / 'does-not-exist.gs']
		else:
			args = ['-d', self.db, 'dist', '-o', self.out('csv'), '--no-progress', '--use-db', '-k', self.k + 1, '-p', self.prefix, '-q', self.qfiles[0]]
		code, *_ = self.cli(args)
		self.ctx.count('failing_commands' if code != 0 else 'failing_commands_that_succeeded')
		return f'failing command ({kind}) -> {code}'

	def step_library(self):
		from gambit.db import ReferenceDatabase
		from gambit.query import query
		from gambit.metric import jaccarddist_matrix
		db = ReferenceDatabase.load_from_dir(self.db)
		try:
			q = [db.signatures[0], db.signatures[len(db.signatures) - 1]]
			query(db, q)
			jaccarddist_matrix(q, db.signatures, chunksize=self.rng.choice([None, 1, 3]))
			db.signatures[::2]; db.signatures[[0, 0]]
		finally:
			db.signatures.close(); db.session.close()
		return 'library: load_from_dir + query() + jaccarddist_matrix on file-backed signatures'

	def step_orm(self):
		"""ORM edits on the default session: nothing may reach the file, commit must raise."""
		from gambit.db import ReferenceDatabase
		from gambit.db.models import Taxon, Genome
		db = ReferenceDatabase.load_from_dir(self.db)
		s = db.session
		did = []
		try:
			t = s.query(Taxon).first()
			# commit is refused even when nothing is pending
			try:
				s.commit()
			except Exception as e:
				self.ctx.count('clean_commit_refused')
			else:
				self.ctx.violation('commit-not-refused', 'commit() on the default database session (nothing pending) returned normally', dict(did=['clean-commit']))
			t.name = 'renamed by verif'; t.distance_threshold = 0.123
			did.append('edit')
			if self.rng.random() < 0.7:
				s.add(Taxon(key='verif/new-taxon', name='new', genome_set=db.genomeset)); did.append('add')
			if self.rng.random() < 0.5:
				g = s.query(Genome).first()
				s.delete(g); did.append('delete')
			s.flush(); did.append('flush')
			s.query(Taxon).count(); did.append('autoflush-query')
			try:
				s.commit()
			except Exception as e:
				self.ctx.count('commit_refused'); self.ctx.seen('commit_error_types', type(e).__name__)
				did.append(f'commit->{type(e).__name__}')
			else:
				self.ctx.violation('commit-not-refused', 'commit() on the default database session returned normally', dict(did=did))
			# a second session from the same maker must not see the edits as persisted
			s.rollback(); did.append('rollback')
		finally:
			db.signatures.close(); s.close()
		self.ctx.count('orm_edit_steps')
		return 'orm: ' + ','.join(did)

	def step_taxonomy_reads(self):
		"""Read-side ORM use of the taxonomy and of accession look-ups (index-statistics consulting queries), sessions closed and collected."""
		import gc
		from gambit.db import ReferenceDatabase
		from gambit.db.refdb import load_genomeset, genomes_by_id
		from gambit.db.models import Taxon, Genome, AnnotatedGenome
		db = ReferenceDatabase.load_from_dir(self.db)
		try:
			gs = db.genomeset
			roots = list(gs.root_taxa())
			for t in roots:
				list(t.descendants()); [list(x.genomes) for x in t.traverse()]; t.lineage(); list(t.leaves())
			db.session.query(Genome).filter(Genome.genbank_acc.like('GCA%')).count()
			db.session.query(Genome).filter_by(refseq_acc='GCF_000001.1').all()
			db.session.query(AnnotatedGenome).join(Genome).filter(Genome.ncbi_id > 0).order_by(Genome.key).all()
			db.session.query(Taxon).filter(Taxon.name.like('%a%'), Taxon.rank == 'species').all()
			for attr in ('genbank_acc', 'refseq_acc', 'ncbi_id', 'key'):
				try:
					genomes_by_id(gs, attr, [getattr(g.genome, attr) for g in db.genomes][:3])
				except Exception:
					pass
		finally:
			db.signatures.close(); db.session.close()
		s2, gs2 = load_genomeset(next(p for p in self.db.iterdir() if p.suffix in ('.gdb', '.db')))
		list(gs2.taxa); s2.close()
		del db, s2, gs2
		gc.collect()
		return 'library: taxonomy traversal + accession look-ups, sessions closed and garbage-collected'

	def step_explicit_writable_maker(self):
		"""An explicitly writable session maker is requested (and only used for reading). Later *default* sessions must still refuse."""
		from sqlalchemy.orm import Session
		from gambit.db.sqla import file_sessionmaker
		from gambit.db.models import Taxon
		gdb = next(p for p in self.db.iterdir() if p.suffix in ('.gdb', '.db'))
		how = self.rng.choice(['cls=Session', 'readonly=False'])
		maker = file_sessionmaker(gdb, cls=Session) if how == 'cls=Session' else file_sessionmaker(gdb, readonly=False)
		s = maker()
		try:
			s.query(Taxon).count()
		finally:
			s.close()
		return f'library: file_sessionmaker({how}) used read-only'

	def step_default_session_direct(self):
		"""The library's default session obtained directly from file_sessionmaker / load_genomeset."""
		from gambit.db.sqla import file_sessionmaker, ReadOnlySession
		from gambit.db.refdb import load_genomeset
		from gambit.db.models import Taxon
		gdb = next(p for p in self.db.iterdir() if p.suffix in ('.gdb', '.db'))
		for how in ('file_sessionmaker', 'load_genomeset'):
			s = file_sessionmaker(gdb)() if how == 'file_sessionmaker' else load_genomeset(gdb)[0]
			try:
				t = s.query(Taxon).first()
				t.name = 'edited through ' + how
				s.flush()
				try:
					s.commit()
				except Exception:
					self.ctx.count('commit_refused')
				else:
					self.ctx.violation('commit-not-refused', f'commit() on the default session from {how}() returned normally', dict(how=how, session_class=type(s).__name__))
			finally:
				s.rollback(); s.close()
			# the other transaction-shaped APIs of a session: savepoints (begin_nested), bulk statements, merge, raw DML - all on the
			# default session, all with an edit inside, every outcome (exception or not) accepted; the Watch decides whether anything
			# reached the file
			s = file_sessionmaker(gdb)() if how == 'file_sessionmaker' else load_genomeset(gdb)[0]
			try:
				for op in ('savepoint', 'savepoint-flush', 'savepoint-commit', 'merge'):     # ORM-level pending changes only: statements the caller sends itself (bulk UPDATE, raw DML) are not "pending changes"
					try:
						t = s.query(Taxon).first()
						if op in ('savepoint', 'savepoint-flush'):
							with s.begin_nested():
								t.description = 'edited inside a savepoint'
								if op == 'savepoint-flush':
									s.flush()
						elif op == 'savepoint-commit':
							tx = s.begin_nested()
							t.name = 'edited in nested block'
							tx.commit()
						elif op == 'bulk-update':
							s.query(Taxon).filter(Taxon.id == t.id).update({'description': 'bulk'}, synchronize_session=False)
						elif op == 'merge':
							s.merge(Taxon(id=t.id, key=t.key, name='merged', genome_set_id=t.genome_set_id))
							s.flush()
						else:
							from sqlalchemy import text
							s.execute(text('UPDATE taxa SET description = :d WHERE id = :i'), dict(d='raw dml', i=t.id))
						self.ctx.count(f'session_api:{op}:returned')
					except Exception as e:
						self.ctx.count(f'session_api:{op}:{type(e).__name__}')
					try:
						s.commit()
					except Exception:
						self.ctx.count('commit_refused')
					else:
						self.ctx.violation('commit-not-refused', f'commit() on the default session from {how}() after {op} returned normally', dict(how=how, op=op))
					try:
						s.rollback()
					except Exception:
						pass
			finally:
				try:
					s.rollback()
				except Exception:
					pass
				s.close()
		return 'library: default sessions from file_sessionmaker() and load_genomeset(): edit + flush + commit, savepoints, bulk and raw statements'

	def step_cli_session(self):
		"""The CLI context's own session maker must hand out a read-only session too."""
		import click
		from gambit.cli.common import CLIContext
		from gambit.cli.root import cli
		from gambit.db.models import Taxon
		ctx = click.Context(cli)
		ctx.params = {'db_path': str(self.db)}
		cc = CLIContext(ctx)
		s = cc.Session()
		try:
			t = s.query(Taxon).first()
			t.name = 'cli edit'
			s.flush()
			try:
				s.commit()
			except Exception:
				self.ctx.count('commit_refused')
			else:
				self.ctx.violation('commit-not-refused', 'commit() on the CLI session returned normally', {})
		finally:
			s.close()
			if cc._signatures is not None:
				cc._signatures.close()
			cc.engine.dispose()
		return 'cli-context session: edit + flush + commit'

	def step_concurrent(self):
		from vf import clidrv
		res = []

		def run(i):
			res.append(clidrv.run_subproc(['-d', self.db, 'query', '-o', self.dir / f'conc{self.n}_{i}.csv', '--no-progress', self.qfiles[i % len(self.qfiles)]])[0])
		self.n += 1
		ts = [threading.Thread(target=run, args=(i,)) for i in range(2)]
		[t.start() for t in ts]; [t.join() for t in ts]
		return f'two console-script queries at once -> {res}'


STEP_WEIGHTS = [('query_files', 5), ('query_sigs', 3), ('sigs_create', 2), ('dist_usedb', 3), ('info', 3), ('tree', 1), ('fail', 5), ('library', 3), ('orm', 4), ('cli_session', 2), ('concurrent', 1), ('explicit_writable_maker', 3), ('default_session_direct', 3), ('taxonomy_reads', 4), ('output_inside_db_dir', 2)]


def run_hist(sh, ctx):
	rng = random.Random(f'C18-{ctx.seed}-{sh["sub"]}')
	mon = SqlMonitor(ctx)
	try:
		for h in range(sh['nhist']):
			H = Hist(ctx, rng, f'h{h}', testdb=sh.get('testdb', False), journal='wal' if h % 3 == 1 else 'delete',
			         damage=['table-dropped', 'zero-length', 'foreign-sqlite', 'index-dropped', 'truncated'][h % 5] if sh.get('damaged') else None)
			mon.dbpath = str(H.db)
			watch = Watch(ctx, H.db)
			hist = []
			L = rng.randint(5, sh['maxlen'])
			names = [n for n, wt in STEP_WEIGHTS for _ in range(wt) if not (sh.get('damaged') and n in ('explicit_writable_maker', 'orm', 'default_session_direct', 'cli_session', 'concurrent'))]   # an incomplete file: read-side commands and loads only (what an explicitly writable session may do to it is not the property's business)
			for step in range(L):
				name = rng.choice(names)
				if name == 'concurrent' and (ctx.tier == 'quick' and step % 7):
					name = 'info'
				mon.current = f'{step}:{name}'
				try:
					desc = getattr(H, 'step_' + name)()
				except Exception as e:
					desc = f'{name} raised {type(e).__name__}: {str(e)[:80]}'
					ctx.count('steps_raising')
				hist.append(desc)
				ctx.count(f'step:{name}')
				if not watch.check(step, hist[-12:]):
					break
			ctx.case(('hist', sh['sub'], h, hist), nontrivial=True, sample=dict(history=hist[:10], files={p.name: watch.base[p]['sha256'][:16] for p in watch.files}) if h == 0 else None)
			ctx.count('histories'); ctx.count('history_steps', len(hist))
			shutil.rmtree(H.dir, ignore_errors=True)
	finally:
		mon.close()


# ---- strace -----------------------------------------------------------------------------------------------------

def classify_syscalls(trace_text, targets):
	"""-> (counts by class, list of offending lines). targets: absolute paths of the two database files."""
	counts, bad = {}, []
	pats = [re.compile(re.escape(t) + r'(?![-\w.])') for t in targets]     # not the -wal / -shm / -journal side files
	for line in trace_text.splitlines():
		if not any(p_.search(line) for p_ in pats):
			continue
		m = re.match(r'^(?:\d+\s+)?(\w+)\(', line)
		if not m:
			continue
		sc = m.group(1)
		if sc in ('openat', 'open'):
			fl = re.search(r'O_\w+(?:\|O_\w+)*', line)
			flags = fl.group(0) if fl else ''
			mode = 'O_RDWR' if 'O_RDWR' in flags else ('O_WRONLY' if 'O_WRONLY' in flags else 'O_RDONLY')
			key = f'open:{mode}' + ('|O_TRUNC' if 'O_TRUNC' in flags else '') + ('|O_CREAT' if 'O_CREAT' in flags else '')
			counts[key] = counts.get(key, 0) + 1
			if 'O_TRUNC' in flags or 'O_WRONLY' in flags:
				bad.append(line[:300])
		elif sc == 'mmap':
			if 'PROT_WRITE' in line and 'MAP_SHARED' in line:
				counts['mmap:shared-writable'] = counts.get('mmap:shared-writable', 0) + 1
				bad.append(line[:300])
		else:
			counts[sc] = counts.get(sc, 0) + 1
			bad.append(line[:300])
	return counts, bad


def run_strace(sh, ctx):
	from vf import core
	rng = random.Random(f'C18-strace-{ctx.seed}')
	for h in range(sh['nhist']):
		H = Hist(ctx, rng, f's{h}', testdb=(h % 2 == 1), journal='wal' if h % 2 == 0 else 'delete')
		watch = Watch(ctx, H.db)
		targets = [str(p) for p in watch.files]
		env = core.worker_env()
		cmds = [
			['-d', H.db, 'query', '-o', H.out('csv'), '--no-progress'] + H.qfiles[:2],
			['-d', H.db, 'query', '-f', 'archive', '--strict', '-o', H.out('json'), '--no-progress', H.qfiles[0]],
			['-d', H.db, 'signatures', 'info', '-d'],
			['-d', H.db, 'signatures', 'info', '-d', '-i'],
			['-d', H.db, 'dist', '-o', H.out('csv'), '--no-progress', '--use-db', '-q', H.qfiles[0]],
			['-d', H.db, 'signatures', 'create', '--db-params', '-o', H.out('gs'), '--no-progress', H.qfiles[0]],
			['-d', H.db, 'query', '--no-such-option'],
			['-d', H.db, 'dist', '-o', H.out('csv'), '--no-progress', '--use-db', '-k', H.k + 1, '-p', H.prefix, '-q', H.qfiles[0]],
			['-d', H.db, 'query', '-o', '/proc/nonexistent/out.csv', '--no-progress', H.qfiles[0]],
		]
		rng.shuffle(cmds)
		hist = []
		for step, args in enumerate(cmds[:sh['steps']]):
			tr = H.dir / f'trace{step}.txt'
			cmd = ['strace', '-f', '-y', '-qq', '-e', f'trace={WRITE_SYSCALLS}', '-o', str(tr), '/venv/bin/gambit'] + [str(a) for a in args]
			p = subprocess.run(cmd, env=env, capture_output=True, timeout=600)
			desc = ' '.join(str(a) for a in args[2:5]) + f' -> {p.returncode}'
			hist.append(desc)
			text = tr.read_text(errors='replace') if tr.exists() else ''
			counts, bad = classify_syscalls(text, targets)
			for k, v in counts.items():
				ctx.count(f'syscall:{k}', v)
			ctx.case(('strace', h, step, desc), nontrivial=True, sample=dict(command=desc, syscalls_on_database_files=counts) if step == 0 else None)
			ctx.count('straced_commands')
			if not text:
				ctx.inconc(f'strace produced no trace for {desc}')
			if bad:
				ctx.violation('write-class-syscall-on-database-file', f'{desc}: {bad[0]}', dict(history=hist, lines=bad[:5]))
			watch.check(step, hist)
		shutil.rmtree(H.dir, ignore_errors=True)


def run_shard(sh, ctx):
	{'hist': run_hist, 'strace': run_strace}[sh['kind']](sh, ctx)


def finalize(merged, tier, seed, inconclusive):
	c = merged['counters']
	need = ['histories', 'step:query_files', 'step:query_sigs', 'step:dist_usedb', 'step:info', 'step:fail', 'step:library', 'step:orm', 'step:cli_session', 'step:explicit_writable_maker', 'step:default_session_direct', 'step:taxonomy_reads', 'failing_commands', 'commit_refused', 'orm_edit_steps',
	        'sql:SELECT', 'straced_commands', 'syscall:open:O_RDONLY', 'genome_file_journal_mode:wal', 'genome_file_journal_mode:delete', 'genome_file_larger_than_2000KiB', 'genome_file_damage:table-dropped', 'genome_file_damage:zero-length', 'genome_file_damage:foreign-sqlite']
	for n in need:
		if c.get(n, 0) == 0:
			inconclusive.append(f'class never observed: {n}')
	if not any(k.startswith('syscall:open:O_RDWR') for k in c):
		inconclusive.append('strace never saw SQLite open the genome file (O_RDWR): path resolution is not working')
	return dict(exhaustive=False, sql_statements_by_verb={k[4:]: v for k, v in c.items() if k.startswith('sql:')},
	            syscalls_on_database_files={k[8:]: v for k, v in c.items() if k.startswith('syscall:')})
