"""C07 - k-mer/index conversion is the base-4 bijection, consistent with revcomp."""

import itertools

import numpy as np
import random

from vf.oracles import sigdef as S

LEVEL = 'exploration'
RULE = ('cases = one k-mer / byte string / index pushed through kmer_to_index, kmer_to_index_rc, index_to_kmer, revcomp and '
        'compared with positional arithmetic in Python ints and an 8-entry complement table; exhaustive: all k-mers k<=8 in '
        '3 case patterns, all byte strings of length <=2 over 0..255; boundary + random k-mers/indices for every k<=32, '
        'lengths 33..40 must be rejected; non-trivial = every case (each is a distinct input), distinct by hash')
ASSUMPTIONS = ['"rejected with an error" = any exception raised instead of a value', 'revcomp is observed on bytes-like inputs (the only ones it accepts)']
REACH = ['gambit.kmers:kmer_to_index', 'gambit.kmers:kmer_to_index_rc', 'gambit.seq:seq_to_bytes']
VALID = set(b'ACGTacgt')


def shards(tier, seed):
	out = []
	kmax = 8
	for k in range(1, kmax + 1):
		nparts = 1 if k < 7 else (2 if k == 7 else 8)
		for p in range(nparts):
			out.append(dict(name=f'allkmers-k{k}-{p}', kind='allkmers', k=k, part=p, nparts=nparts))
	for p in range(4):
		out.append(dict(name=f'bytes2-{p}', kind='bytes2', part=p, nparts=4))
	n = 4 if tier == 'quick' else 16
	for i in range(n):
		out.append(dict(name=f'rand-{i}', kind='rand', sub=i, n=3000 if tier == 'quick' else 20000))
	out.append(dict(name='boundary', kind='boundary'))
	# same code paths with the native encoder/decoder compiled with ASan+UBSan (bounds checks are compiled out in the build)
	out.append(dict(name='asan-boundary', kind='boundary', sanitizer='asan'))
	out.append(dict(name='asan-rand', kind='rand', sub=99, n=1500 if tier == 'quick' else 10000, sanitizer='asan'))
	out.append(dict(name='asan-bytes2', kind='bytes2', part=0, nparts=8 if tier == 'quick' else 1, sanitizer='asan'))
	return out


class Chk:
	def __init__(self, ctx):
		import gambit.kmers as gk
		import gambit.seq as gs
		from Bio.Seq import Seq
		self.gk, self.gs, self.ctx, self.Seq = gk, gs, ctx, Seq
		self.rot = 0

	def _call(self, f, *a):
		try:
			return ('ok', f(*a))
		except Exception as e:
			return ('err', type(e).__name__)

	def kmer(self, s: bytes, types=False):
		"""s: candidate k-mer bytes (any content)."""
		ctx, gk = self.ctx, self.gk
		valid = all(x in VALID for x in s) and len(s) <= 32
		ctx.case(('kmer', s.hex()))
		r = self._call(gk.kmer_to_index, s)
		rr = self._call(gk.kmer_to_index_rc, s)
		w = dict(kmer=repr(s))
		if valid:
			exp = S.kmer_index(s)
			exprc = S.kmer_index(S.revcomp(s))
			if r[0] != 'ok':
				ctx.violation('rejects-valid', f'kmer_to_index({s!r}) raised {r[1]}', w)
			elif r[1] != exp:
				ctx.violation('index-wrong', f'kmer_to_index({s!r}) = {r[1]} expected {exp}', w)
			if rr[0] != 'ok':
				ctx.violation('rejects-valid', f'kmer_to_index_rc({s!r}) raised {rr[1]}', w)
			elif rr[1] != exprc:
				ctx.violation('rc-index-inconsistent', f'kmer_to_index_rc({s!r}) = {rr[1]}, index of revcomp = {exprc}', w)
			else:
				# also through the library's own revcomp
				r2 = self._call(gk.kmer_to_index, self.gs.revcomp(s))
				if r2 != ('ok', rr[1]):
					ctx.violation('rc-index-inconsistent', f'kmer_to_index(revcomp({s!r})) = {r2} vs kmer_to_index_rc = {rr[1]}', w)
			if len(s) >= 1:
				d = self._call(gk.index_to_kmer, exp, len(s))
				if d != ('ok', S.upper(s)):
					ctx.violation('decode-wrong', f'index_to_kmer({exp}, {len(s)}) = {d} expected {S.upper(s)!r}', w)
				ctx.count('roundtrips')
				# composition with the library's own return value, whatever its type is
				if r[0] == 'ok':
					d2 = self._call(gk.index_to_kmer, r[1], len(s))
					ctx.evals += 1
					ctx.count('composed_roundtrips')
					if d2 != ('ok', S.upper(s)):
						ctx.violation('roundtrip', f'index_to_kmer(kmer_to_index({s!r}), {len(s)}) = {d2} (kmer_to_index returned {type(r[1]).__name__} {r[1]})', w)
			ctx.count('valid_kmers')
		else:
			for name, res in (('kmer_to_index', r), ('kmer_to_index_rc', rr)):
				if res[0] == 'ok':
					mech = 'accepts-too-long' if len(s) > 32 and all(x in VALID for x in s) else 'accepts-invalid'
					ctx.violation(mech, f'{name}({s!r}) returned {res[1]} instead of raising', w)
				else:
					ctx.seen('rejection_error_types', res[1])
			ctx.count('invalid_kmers_rejected_or_flagged')
			# the same invalid k-mer through the other input types (text, bytearray, Bio.Seq): still rejected by both encoders
			if types or self.rot % 5 == 0:
				objs = [('bytearray', bytearray(s)), ('Seq', self.Seq(s))] + ([('str', s.decode('ascii'))] if all(x < 128 for x in s) else [])
				for tn, obj in objs:
					for fn in (gk.kmer_to_index, gk.kmer_to_index_rc):
						res = self._call(fn, obj)
						ctx.evals += 1
						ctx.count(f'invalid_type:{tn}')
						if res[0] == 'ok':
							mech = 'accepts-too-long' if len(s) > 32 and all(x in VALID for x in s) else 'accepts-invalid'
							ctx.violation(mech, f'{fn.__name__}({tn} {s!r}) returned {res[1]} instead of raising', dict(w, type=tn))
			self.rot += 1
		if types and valid:
			exp = S.kmer_index(s)
			for tn, obj in (('str', s.decode('ascii')), ('bytearray', bytearray(s)), ('Seq', self.Seq(s))):
				for fn, e in ((gk.kmer_to_index, exp), (gk.kmer_to_index_rc, S.kmer_index(S.revcomp(s)))):
					got = self._call(fn, obj)
					ctx.evals += 1
					ctx.count(f'type:{tn}')
					if got != ('ok', e):
						ctx.violation('type-variant', f'{fn.__name__}({tn} {s!r}) = {got} expected {e}', w)

	def text_kmer(self, t: str):
		"""A k-mer given as text that contains something else than ACGTacgt (ASCII junk or non-ASCII characters): must be rejected."""
		ctx, gk = self.ctx, self.gk
		ctx.case(('text', t))
		for fn in (gk.kmer_to_index, gk.kmer_to_index_rc):
			r = self._call(fn, t)
			ctx.count('invalid_text_kmers')
			if r[0] == 'ok':
				mech = 'accepts-too-long' if sum(c in 'ACGTacgt' for c in t) >= 32 and len(t) > 32 else 'accepts-invalid'
				ctx.violation(mech, f'{fn.__name__}({t!r}) (str) returned {r[1]} instead of raising', dict(kmer=t, type='str'))
			else:
				ctx.seen('rejection_error_types', r[1])

	def rev(self, s: bytes):
		ctx = self.ctx
		ctx.case(('rev', s.hex()))
		exp = S.revcomp(s)
		r = self._call(self.gs.revcomp, s)
		w = dict(seq=repr(s))
		if r != ('ok', exp):
			ctx.violation('revcomp-wrong', f'revcomp({s!r}) = {r} expected {exp!r}', w)
			return
		r2 = self._call(self.gs.revcomp, r[1])
		if r2 != ('ok', s):
			ctx.violation('revcomp-involution', f'revcomp(revcomp({s!r})) = {r2}', w)
		if self.rot % 3 == 0:
			ba = bytearray(s)
			r3 = self._call(self.gs.revcomp, ba)
			if r3 != ('ok', exp):
				ctx.violation('revcomp-wrong', f'revcomp(bytearray {s!r}) = {r3}', w)
			ctx.count('caller_buffer_checks')
			if bytes(ba) != s:
				ctx.violation('caller-buffer-modified', f'revcomp modified its bytearray argument in place: {s!r} became {bytes(ba)!r}', w)
			if len(s) <= 32 and all(x in VALID for x in s) and s:
				for fn in (self.gk.kmer_to_index, self.gk.kmer_to_index_rc):
					ba = bytearray(s)
					self._call(fn, ba)
					if bytes(ba) != s:
						ctx.violation('caller-buffer-modified', f'{fn.__name__} modified its bytearray argument in place: {s!r} became {bytes(ba)!r}', w)
		self.rot += 1
		ctx.count('revcomp_calls')

	def index(self, i: int, k: int):
		ctx, gk = self.ctx, self.gk
		ctx.case(('idx', i, k))
		exp = S.index_kmer(i, k)
		d = self._call(gk.index_to_kmer, i, k)
		w = dict(index=i, k=k)
		if d != ('ok', exp):
			ctx.violation('decode-wrong', f'index_to_kmer({i}, {k}) = {d} expected {exp!r}', w)
			return
		back = self._call(gk.kmer_to_index, d[1])
		if back != ('ok', i):
			ctx.violation('roundtrip', f'kmer_to_index(index_to_kmer({i}, {k})) = {back}', w)
		ctx.count('index_roundtrips')
		# the same index as a NumPy integer (what a signature element is): same k-mer
		for dtn in ('u8', 'i8', 'u4', 'u2', 'u1'):
			info = np.iinfo(dtn)
			if not (info.min <= i <= info.max) or 4 ** k - 1 > info.max and dtn not in ('u8', 'i8'):
				continue
			v = np.array([i], dtype=dtn)[0]
			dn = self._call(gk.index_to_kmer, v, k)
			ctx.evals += 1
			ctx.count(f'index_type:np.{dtn}')
			if i >= 2 ** 53:
				ctx.count(f'index_type_above_2^53:np.{dtn}')
			if dn != ('ok', exp):
				ctx.violation('decode-wrong', f'index_to_kmer(np.{np.dtype(dtn).name}({i}), {k}) = {dn} expected {exp!r}', dict(w, index_type=dtn))


def run_shard(sh, ctx):
	c = Chk(ctx)
	rng = random.Random(f'C07-{ctx.seed}-{sh.get("sub", 0)}')
	kind = sh['kind']
	if kind == 'allkmers':
		k = sh['k']
		ctx.notes['exhaustive_scopes'] = [f'all {4**k} {k}-mers x upper/lower/mixed case']
		for n, tup in enumerate(itertools.product(b'ACGT', repeat=k)):
			if n % sh['nparts'] != sh['part']:
				continue
			s = bytes(tup)
			c.kmer(s, types=(n % 64 == 0))
			c.kmer(s.lower())
			mixed = bytes(x + 32 if (n >> j) & 1 else x for j, x in enumerate(s))
			c.kmer(mixed)
			c.rev(s)
			c.rev(mixed)
			c.index(n, k)
	elif kind == 'bytes2':
		ctx.notes['exhaustive_scopes'] = ['all byte strings of length 0..2 over 0..255']
		n = 0
		for L in (0, 1, 2):
			for tup in itertools.product(range(256), repeat=L):
				n += 1
				if n % sh['nparts'] != sh['part']:
					continue
				s = bytes(tup)
				if L > 0:
					c.kmer(s)
				c.rev(s)
	elif kind == 'rand':
		for _ in range(sh['n']):
			k = rng.randint(1, 32)
			s = bytes(rng.choice(b'ACGTacgt') for _ in range(k))
			ctx.seen('k_values', k)
			c.kmer(s, types=rng.random() < 0.1)
			c.rev(s)
			c.index(rng.randrange(4 ** k), k)
			# one bad byte at a random position
			bad = bytearray(s)
			bad[rng.randrange(k)] = rng.choice([x for x in range(256) if x not in VALID])
			c.kmer(bytes(bad))
			c.rev(bytes(bad))
			# arbitrary bytes, arbitrary length
			junk = bytes(rng.randrange(256) for _ in range(rng.randint(0, 60)))
			c.rev(junk)
			# text k-mers with one foreign character (ASCII junk and non-ASCII), at a random position
			t = s.decode('ascii')
			pos = rng.randrange(k + 1)
			for junk in (rng.choice('NnXx-. @1'), rng.choice('\u00e9\u00a0\ufeff\u0391\u4e2d\U0001F600\u0080\u00ff')):
				c.text_kmer(t[:pos] + junk + t[pos:])
			# too long
			if rng.random() < 0.3:
				L = rng.randint(33, 40)
				c.kmer(bytes(rng.choice(b'ACGT') for _ in range(L)))
				ctx.count('too_long_kmers')
	elif kind == 'boundary':
		for k in range(1, 33):
			ctx.seen('k_values', k)
			cands = [b'A' * k, b'T' * k, b'C' * k, b'G' * k, (b'AT' * k)[:k], (b'CG' * k)[:k], (b'ACGT' * k)[:k]]
			for j in range(k):
				cands.append(b'A' * j + b'T' + b'A' * (k - j - 1))
				cands.append(b'T' * j + b'A' + b'T' * (k - j - 1))
			for s in cands:
				c.kmer(s, types=True)
				c.kmer(s.lower())
				c.rev(s)
			for i in {0, 1, 2, 3, 4 ** k - 1, 4 ** k - 2, 4 ** k // 2, 4 ** k // 2 - 1, min(2 ** 63, 4 ** k - 1), min(2 ** 63 - 1, 4 ** k - 1), min(2 ** 64 - 1, 4 ** k - 1), min(2 ** 32, 4 ** k - 1), min(2 ** 32 - 1, 4 ** k - 1)}:
				c.index(i, k)
		for junk in '\u00e9\u00a0\ufeff\u0080\u00ff\u0100\u4e2d\U0001F600 N-':
			c.text_kmer(junk)
			c.text_kmer('ACGT' + junk)
			c.text_kmer(junk + 'ACGT')
			c.text_kmer('A' * 32 + junk)
			c.text_kmer('A' * 16 + junk + 'C' * 16)
		# letters that other tools treat as nucleotides (RNA U, IUPAC ambiguity codes, gap characters): not k-mer letters here, whatever
		# the input type
		for ch_ in b'UuRrYyKkMmSsWwBbDdHhVvNn-.*Xx':
			x = bytes([ch_])
			for s in (x, b'AC' + x, x + b'AC', b'A' + x + b'C', b'A' * 31 + x, b'ACGTTGCA' + x + b'ACG'):
				c.kmer(s, types=True)
			ctx.count('nucleotide_lookalike_letters')
		for L in range(33, 41):
			c.kmer(b'A' * L)
			c.kmer((b"ACGT" * 10)[:L])
			ctx.count('too_long_kmers')


def finalize(merged, tier, seed, inconclusive):
	c = merged['counters']
	for n in ['valid_kmers', 'invalid_kmers_rejected_or_flagged', 'roundtrips', 'index_roundtrips', 'revcomp_calls', 'too_long_kmers', 'type:str', 'type:Seq', 'type:bytearray', 'invalid_text_kmers', 'composed_roundtrips', 'caller_buffer_checks', 'invalid_type:Seq', 'invalid_type:str', 'index_type:np.u8', 'index_type_above_2^53:np.u8', 'index_type:np.u1']:
		if c.get(n, 0) == 0:
			inconclusive.append(f'class never observed: {n}')
	merged['notes'].setdefault('sanitizer_stage', {})
	if not merged['notes'].get('overlay_loaded', {}).get('asan') and not merged['notes']['sanitizer_stage']:
		inconclusive.append('ASan/UBSan overlay was never loaded')
	if len(merged['sets'].get('k_values', ())) < 32:
		inconclusive.append('not all k in 1..32 exercised')
	return dict(exhaustive=True, exhaustive_note='all k-mers for k<=8 (3 case patterns) and all byte strings of length <=2 are enumerated; k 9..32 boundary + sampled')
