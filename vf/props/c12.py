"""C12 - signature files round-trip exactly and foreign files are refused.

Monitor: the in-memory object that was written is the oracle for everything read back (k-mer
parameters, ids with their kind, every metadata field with None vs '' distinguished, nested extra,
every signature under int / slice / list indices, integer type); non-signature byte contents must be
refused with SignaturesFileError specifically."""

import os
import gzip
import json
import random
import sqlite3

import numpy as np

LEVEL = 'exploration'
RULE = ('cases = (k, prefix, container kind, signatures, id kind, metadata, compression filter) written with dump_signatures and '
        'read with load_signatures, and foreign byte contents handed to load_signatures; k covers 1..32 and all four index '
        'widths, every compression filter of this h5py build (none, gzip 0-9, lzf) on both write paths; non-trivial = every '
        'case; distinct = full case description by hash')
ASSUMPTIONS = ['NUL characters inside ids/metadata are outside the domain (HDF5 variable-length strings cannot carry them)',
               'files that carry the format marker are outside "not a signature file"']
REACH = ['gambit.sigs.hdf5:HDF5Signatures._init_datasets', 'gambit.sigs.hdf5:HDF5Signatures._init_attrs', 'gambit.sigs.hdf5:HDF5Signatures.create',
         'gambit.sigs.hdf5:load_signatures_hdf5', 'gambit.sigs.hdf5:dump_signatures_hdf5', 'gambit.sigs.hdf5:HDF5Signatures.__init__',
         'gambit.sigs.hdf5:write_metadata', 'gambit.sigs.hdf5:read_metadata']

STRS = ['', 'a', 'plain id', 'Ünïcödé', '日本語', '😀 emoji', 'comma,quote"\'', 'new\nline', 'tab\tcr\rx', ' lead/trail ', 'x' * 300, 'y' * 70000, '‮RTL', 'null-free\x7f', '𝔘𝔫𝔦']
COMPRESSIONS = [(None, None)] + [('gzip', l) for l in range(10)] + [('gzip', None), ('lzf', None)]


def shards(tier, seed):
	n = 16 if tier == 'quick' else 48
	out = [dict(name=f'rt-{i}', kind='rt', sub=i, n=110 if tier == 'quick' else 500) for i in range(n)]
	out.append(dict(name='allk', kind='allk'))
	out.append(dict(name='foreign', kind='foreign', n=150 if tier == 'quick' else 1500))
	out.append(dict(name='cli-info', kind='cli', n=25 if tier == 'quick' else 150))
	return out


def rand_prefix(rng):
	return ''.join(rng.choice('ACGT') for _ in range(rng.randint(1, 8)))


def rand_extra(rng, depth=0):
	c = rng.random()
	if depth > 2 or c < 0.3:
		return rng.choice([None, True, False, 0, -5, 3.25, 1e300, 'str', rng.choice(STRS), 2 ** 40])
	if c < 0.65:
		return {rng.choice(['a', 'b', 'ключ', 'revision', 'author', 'k' + str(rng.randrange(9))]): rand_extra(rng, depth + 1) for _ in range(rng.randint(0, 3))}
	return [rand_extra(rng, depth + 1) for _ in range(rng.randint(0, 3))]


def gen_case(rng, k=None, force_n=None, force_idk=None):
	from gambit.kmers import KmerSpec
	from gambit.sigs.base import SignatureArray, SignatureList, AnnotatedSignatures, SignaturesMeta
	k = k or rng.randint(1, 32)
	prefix = rand_prefix(rng)
	ks = KmerSpec(k, prefix)
	# the collection's integer type: the minimal unsigned one for k, a wider one, or a signed one that can hold the values
	cands = [ks.index_dtype] * 3 + [d_ for d_ in ('u2', 'u4', 'u8', 'i2', 'i4', 'i8') if np.dtype(d_).itemsize >= np.dtype(ks.index_dtype).itemsize and d_ != np.dtype(ks.index_dtype).str[1:]]
	dt = np.dtype(rng.choice(cands))
	top = min(4 ** k - 1, int(np.iinfo(dt).max))
	n = force_n or rng.choice([1, 1, 2, 3, 5, 10, 30, rng.choice([127, 128, 129, 255, 256, 257, 1100])])
	sigs = []
	for i in range(n):
		c = rng.random()
		if c < 0.2:
			s = []
		elif c < 0.3:
			s = [top]
		elif c < 0.35 and i == 0:
			s = sorted({rng.randint(0, top) for _ in range(rng.choice([1000, 20000]))})
		else:
			s = sorted({rng.randint(0, top) for _ in range(rng.randint(1, 12))} | ({0} if rng.random() < 0.2 else set()) | ({top} if rng.random() < 0.2 else set()))
		sigs.append(np.array(s, dtype=dt))
	if rng.random() < 0.1:
		sigs = [np.array([], dtype=dt) for _ in range(n)]   # all-empty collection
	base_kind = rng.choice(['sigarray', 'siglist'])
	base = SignatureArray(sigs, ks, dtype=dt) if base_kind == 'sigarray' else SignatureList(list(sigs), ks, dtype=dt)
	annotated = rng.random() < 0.7 or force_idk is not None
	idk = 'default'
	ids = None
	meta = None
	if annotated:
		idk = force_idk or rng.choice(['default', 'str', 'pyint', 'int32', 'uint64', 'npstr', 'perm', 'perm'])
		if idk == 'str':
			pool = list(STRS) + [f'id{j}' for j in range(40 + n)]
			rng.shuffle(pool)
			ids = pool[:n]
		elif idk == 'npstr':
			ids = np.array([f'G{j}é' for j in range(n)])
		elif idk == 'perm':
			# integer ids that LOOK like the default numbering (0 .. n-1, each once) but are in another order, or start at 1
			c_ = rng.random()
			ids = list(range(n))
			if c_ < 0.4:
				rng.shuffle(ids)
			elif c_ < 0.7:
				ids.reverse()
			elif c_ < 0.85:
				ids = list(range(1, n + 1))
			else:
				ids = np.array(rng.sample(range(n), n), dtype=rng.choice(['i8', 'u4', 'u1' if n < 256 else 'u2']))
		elif idk == 'pyint':
			ids = rng.sample(range(-10 ** 6, 10 ** 9), n)
		elif idk == 'int32':
			ids = np.array(rng.sample(range(-2 ** 31, 2 ** 31 - 1), n), dtype='i4')
		elif idk == 'uint64':
			ids = np.array(rng.sample(range(2 ** 63, 2 ** 64 - 1), n), dtype='u8')
		mk = {}
		for f in ('id', 'name', 'version', 'id_attr', 'description'):
			c = rng.random()
			if c < 0.35:
				mk[f] = None
			elif c < 0.5:
				mk[f] = ''
			else:
				mk[f] = rng.choice(STRS)
		c = rng.random()
		if c < 0.15:
			mk['extra'] = None
		elif c < 0.3:
			mk['extra'] = {}
		else:
			e = rand_extra(rng)
			mk['extra'] = e if isinstance(e, dict) else {'v': e}
		meta = SignaturesMeta(**mk) if rng.random() < 0.9 else None
		obj = AnnotatedSignatures(base, ids, meta)
	else:
		obj = base
	comp = rng.choice(COMPRESSIONS)
	desc = dict(k=k, prefix=prefix, n=n, dtype=dt.str[1:], base=base_kind, annotated=annotated, id_kind=idk, compression=list(comp),
	            sizes=[len(s) for s in sigs][:10], meta=None if meta is None else {f: getattr(meta, f) for f in ('id', 'name', 'version', 'id_attr', 'description')},
	            extra=None if meta is None else meta.extra, ids=None if ids is None else [x if isinstance(x, str) else int(x) for x in list(ids)[:8]])
	return obj, sigs, ks, ids, meta, comp, desc


def check_roundtrip(ctx, obj, sigs, ks, ids, meta, comp, desc, path):
	from gambit.sigs.base import dump_signatures, load_signatures, SignaturesMeta
	ctx.case(desc, nontrivial=True, sample=desc if ctx.evals % 97 == 0 else None)
	ctx.count(f'k_width:{ks.index_dtype}'); ctx.count(f'collection_dtype:{desc["dtype"]}' + ('' if np.dtype(desc['dtype']) == np.dtype(ks.index_dtype) else ('(signed)' if desc['dtype'][0] == 'i' else '(wider)'))); ctx.count(f'container:{desc["base"]}{"+annotated" if desc["annotated"] else ""}')
	ctx.count(f'ids:{desc["id_kind"]}'); ctx.count(f'compression:{comp[0]}/{comp[1]}')
	ctx.seen('k_values', ks.k)
	kw = {}
	if comp[0]:
		kw['compression'] = comp[0]
		if comp[1] is not None:
			kw['compression_opts'] = comp[1]
	# the path as str or pathlib.Path; the collection itself, or the same collection first stored in another file and copied
	# file -> file (the source is then a file-backed collection)
	import pathlib
	variant = ['direct', 'direct', 'via-file', 'path-object', 're-annotated', 're-annotated-file'][ctx.evals % 6]
	desc = dict(desc, write_variant=variant)
	ctx.count(f'write_variant:{variant}')
	src = None
	try:
		if variant == 'via-file':
			tmp = pathlib.Path(str(path) + '.src')
			dump_signatures(tmp, obj)
			src = load_signatures(tmp)
			dump_signatures(str(path), src, **kw)
		elif variant == 'path-object':
			dump_signatures(pathlib.Path(str(path)), obj, **kw)
		elif variant in ('re-annotated', 're-annotated-file'):
			# the collection carries OLD annotations (a wrapper, or a signature file on disk) and is given new ids / metadata by wrapping
			# it once more: what is written are the annotations of the object handed to dump_signatures
			from gambit.sigs.base import AnnotatedSignatures
			n_ = len(sigs)
			base_ = obj.signatures if isinstance(obj, AnnotatedSignatures) else obj
			decoy_ids = [f'old-{j}' for j in range(n_)] if not (ids is not None and len(ids) and isinstance(list(ids)[0], str)) else list(range(900, 900 + n_))
			inner = AnnotatedSignatures(base_, decoy_ids, SignaturesMeta(id='old-set', name='old name', version='0.1', id_attr='refseq_acc', description='old', extra={'old': True}))
			if variant == 're-annotated-file':
				tmp = pathlib.Path(str(path) + '.src')
				dump_signatures(tmp, inner)
				src = inner = load_signatures(tmp)
			outer = AnnotatedSignatures(inner, list(range(n_)) if ids is None else ids, SignaturesMeta() if meta is None else meta)
			dump_signatures(str(path), outer, **kw)
		else:
			dump_signatures(str(path), obj, **kw)
	except Exception as e:
		ctx.violation('dump-raises', f'dump_signatures ({variant}) raised {type(e).__name__}: {e}', desc)
		return
	finally:
		if src is not None:
			src.close()
			pathlib.Path(str(path) + '.src').unlink()
	try:
		h = load_signatures(str(path) if variant != 'path-object' else pathlib.Path(str(path)))
	except Exception as e:
		ctx.violation('load-raises', f'load_signatures of a freshly written file raised {type(e).__name__}: {e}', desc)
		return
	try:
		n = len(sigs)
		if h.kmerspec != ks or h.kmerspec.k != ks.k or h.kmerspec.prefix != ks.prefix:
			ctx.violation('kmerspec', f'read {h.kmerspec} wrote {ks}', desc)
		if len(h) != n:
			ctx.violation('length', f'read {len(h)} signatures wrote {n}', desc)
			return
		# ids
		exp_ids = list(range(n)) if ids is None else list(ids)
		got_ids = list(h.ids)
		exp_kind = 'str' if exp_ids and isinstance(exp_ids[0], str) else 'int'
		got_kind = 'str' if got_ids and isinstance(got_ids[0], str) else ('int' if got_ids and isinstance(got_ids[0], (int, np.integer)) else type(got_ids[0]).__name__ if got_ids else exp_kind)
		if got_kind != exp_kind:
			ctx.violation('id-kind', f'ids read as {got_kind} ({got_ids[:3]!r}) written as {exp_kind}', desc)
		elif [x if isinstance(x, str) else int(x) for x in got_ids] != [x if isinstance(x, str) else int(x) for x in exp_ids]:
			ctx.violation('id-values', f'ids read {got_ids[:5]!r} written {exp_ids[:5]!r}', desc)
		# metadata
		em = meta if meta is not None else SignaturesMeta()
		for f in ('id', 'name', 'version', 'id_attr', 'description'):
			a, b = getattr(h.meta, f), getattr(em, f)
			if a != b or type(a) is not type(b):
				ctx.violation('metadata-field', f'meta.{f} read {a!r} written {b!r}', desc)
		ea, eb = h.meta.extra, em.extra
		if json.dumps(ea, sort_keys=True) != json.dumps(eb, sort_keys=True):
			ctx.violation('metadata-extra', f'extra read {ea!r} written {eb!r}', desc)
		# signatures under every kind of index
		dt = np.dtype(desc['dtype'])
		if np.dtype(h.dtype) != dt:
			ctx.violation('dtype', f'file dtype {h.dtype} expected {dt}', desc)
		for i in range(n):
			g = h[i]
			ctx.evals += 1
			if not np.array_equal(g, sigs[i]) or g.dtype != dt:
				ctx.violation('signature-int-index', f'h[{i}] = {g[:6]}... ({g.dtype}) expected {sigs[i][:6]} ({dt})', desc)
				break
			g2 = h[i - n]
			if not np.array_equal(g2, sigs[i]):
				ctx.violation('signature-int-index', f'h[{i - n}] differs', desc)
				break
		for s in (slice(None), slice(0, n // 2), slice(n // 2, None), slice(None, None, -1), slice(1, None, 2), slice(n, n)):
			sub = h[s]
			ctx.evals += 1
			exp = sigs[s]
			items = [sub[j] for j in range(len(sub))]
			if len(items) != len(exp) or not all(np.array_equal(a, b) and a.dtype == dt for a, b in zip(items, exp)):
				ctx.violation('signature-slice', f'h[{s}] differs from what was written', desc)
				break
			if sub.kmerspec != ks:
				ctx.violation('signature-slice', f'h[{s}].kmerspec = {sub.kmerspec}', desc)
		import random as _r
		rr = _r.Random(n * 7919 + len(desc.get('prefix', '')))
		idxs = [[n - 1, 0] + ([n // 2, -1] if n > 1 else []), list(range(n)), list(range(n - 1, -1, -1))]
		for _ in range(6):
			c = rr.random()
			if c < 0.35:
				l = list(range(n)); rr.shuffle(l); l = l[:rr.randint(1, n)]          # permutation / unsorted subset
			elif c < 0.7:
				a = rr.randrange(n); b = rr.randrange(a, n)
				l = list(range(a, b + 1))
				if len(l) > 2:
					mid = l[1:-1]; rr.shuffle(mid); l = [l[0]] + mid + [l[-1]]      # same end points as a contiguous run, permuted interior
				if rr.random() < 0.5 and len(l) > 1:
					l[rr.randrange(1, len(l))] = l[0]                                # duplicates
			else:
				l = [rr.randrange(-n, n) for _ in range(rr.randint(1, n + 2))]      # repeats and negative indices
			idxs.append(l)
		for idx in idxs:
			for arg in (idx, np.array(idx, dtype=rr.choice(['i8', 'i4', 'u8']) if min(idx) >= 0 else 'i8')):
				sub = h[arg]
				ctx.evals += 1
				if len(sub) != len(idx) or not all(np.array_equal(sub[j], sigs[i]) and sub[j].dtype == dt for j, i in enumerate(idx)):
					ctx.violation('signature-list-index', f'h[{idx}] differs from the written signatures at those positions', desc)
					break
			else:
				continue
			break
		ctx.count('index_lists_checked', len(idxs))
		# slices of the loaded collection with every small step, forwards and backwards, over aligned and misaligned ranges
		for _ in range(6):
			a_ = rr.choice([None] + list(range(-n - 1, n + 2))); b_ = rr.choice([None] + list(range(-n - 1, n + 2))); st_ = rr.choice([1, 2, 3, 4, -1, -2, -3, -4])
			sl_ = slice(a_, b_, st_)
			exp_ = sigs[sl_]
			try:
				sub_ = h[sl_]
				got_ = [sub_[j] for j in range(len(sub_))]
			except Exception as e:
				ctx.violation('read-back-raises', f'h[{sl_}] raised {type(e).__name__}: {e}', desc); break
			ctx.evals += 1
			ctx.count('strided_slices_of_loaded_file')
			if len(got_) != len(exp_) or not all(np.array_equal(x_, y_) for x_, y_ in zip(got_, exp_)):
				ctx.violation('signature-slice', f'h[{a_}:{b_}:{st_}] of the loaded file holds {[x_.tolist()[:3] for x_ in got_][:4]}, the written signatures at those positions are {[y_.tolist()[:3] for y_ in exp_][:4]}', desc); break
		# a chunk read earlier must keep its content after later chunks were read ("read chunks first, compare later")
		if n >= 2:
			cuts = sorted({0, n // 3, (2 * n) // 3, n})
			chunks = [(a, b, h[a:b]) for a, b in zip(cuts, cuts[1:]) if b > a] + [(0, n, h[list(range(n))])]
			for a, b, sub in chunks:
				ctx.evals += 1
				if not all(np.array_equal(sub[j], sigs[a + j]) for j in range(b - a)):
					ctx.violation('chunk-changed-after-later-reads', f'h[{a}:{b}] was read before other chunks and no longer equals the written signatures', desc)
					break
			ctx.count('held_chunks_checked', len(chunks))
		if not (h == obj) and hasattr(obj, 'kmerspec'):
			ctx.violation('eq-after-roundtrip', 'loaded collection != written collection', desc)
	except Exception as e:
		import traceback
		ctx.violation('read-back-raises', f'inspecting the loaded file raised {type(e).__name__}: {e} {traceback.format_exc()[-400:]}', desc)
	finally:
		h.close()
		try:
			os.unlink(path)
		except OSError:
			pass


def nfds():
	return len(os.listdir('/proc/self/fd'))


def foreign_cases(rng, workdir, n):
	"""yield (class, path)"""
	import h5py
	MAGIC = b'\x89HDF\r\n\x1a\n'
	k = 0

	def wr(cls, data):
		nonlocal k
		k += 1
		p = workdir / f'f{k}.bin'
		p.write_bytes(data)
		return cls, p

	yield wr('empty', b'')
	for ln in range(1, 8):
		yield wr('short', bytes(rng.randrange(256) for _ in range(ln)))
		yield wr('short-magic-prefix', MAGIC[:ln])
	yield wr('text', b'hello world\nthis is not a signature file\n')
	yield wr('fasta', b'>seq1\nACGTACGTACGT\n>seq2\nTTTTGGGG\n')
	yield wr('gzip', gzip.compress(b'>seq1\nACGT\n'))
	yield wr('json', b'{"gambit_signatures_version": 1}')
	# sqlite genome database
	p = workdir / 'x.gdb'
	con = sqlite3.connect(str(p)); con.execute('create table t (a)'); con.commit(); con.close()
	yield 'sqlite', p
	# valid HDF5 of another kind
	p = workdir / 'plain.h5'
	with h5py.File(p, 'w') as f:
		f.create_dataset('values', data=np.arange(10)); f.create_dataset('bounds', data=np.array([0, 10])); f.create_dataset('ids', data=np.array([0]))
	yield 'hdf5-datasets-only', p
	p = workdir / 'empty.h5'
	with h5py.File(p, 'w') as f:
		pass
	yield 'hdf5-empty', p
	p = workdir / 'sub.h5'
	with h5py.File(p, 'w') as f:
		g = f.create_group('sigs'); g.attrs['gambit_signatures_version'] = 1
	yield 'hdf5-marker-on-subgroup', p
	p = workdir / 'attrs.h5'
	with h5py.File(p, 'w') as f:
		f.attrs['kmerspec_k'] = 5; f.attrs['kmerspec_prefix'] = 'AT'; f.attrs['version'] = 1
	yield 'hdf5-other-attrs', p
	p = workdir / 'ub.h5'
	with h5py.File(p, 'w', userblock_size=512) as f:
		f.attrs['x'] = 1
	yield 'hdf5-userblock', p
	# magic + junk (its own class)
	yield wr('magic+zeros', MAGIC + bytes(100))
	yield wr('magic-only', MAGIC)
	# truncated copies of a real signature file
	from gambit.sigs.base import dump_signatures, SignatureArray
	from gambit.kmers import KmerSpec
	real = workdir / 'real.gs'
	dump_signatures(str(real), SignatureArray([np.arange(50, dtype='u2'), np.arange(3, dtype='u2')], KmerSpec(7, 'AT')))
	data = real.read_bytes()
	for cut in (9, 48, 96, 200, 512, len(data) // 2, len(data) - 1):
		if cut < len(data):
			yield wr('truncated-signature-file', data[:cut])
	for _ in range(n):
		c = rng.random()
		if c < 0.4:
			yield wr('random-bytes', bytes(rng.randrange(256) for _ in range(rng.choice([8, 9, 64, 1000, 5000]))))
		elif c < 0.7:
			yield wr('magic+random', MAGIC + bytes(rng.randrange(256) for _ in range(rng.choice([1, 8, 88, 1000]))))
		elif c < 0.85:
			yield wr('text', ''.join(rng.choice('ACGT\n>;, é') for _ in range(rng.randint(1, 300))).encode())
		else:
			b = bytearray(data)
			# corrupt the superblock region of a real file
			for _ in range(rng.randint(1, 6)):
				b[rng.randrange(8, 96)] = rng.randrange(256)
			yield wr('corrupted-superblock', bytes(b))


def run_foreign(sh, ctx):
	from gambit.sigs.base import load_signatures, SignaturesFileError
	rng = random.Random(f'C12-foreign-{ctx.seed}')
	fd0 = nfds()
	for cls, path in foreign_cases(rng, ctx.workdir, sh['n']):
		data = path.read_bytes()
		ctx.case(('foreign', cls, data[:64].hex(), len(data)), nontrivial=True, sample=dict(cls=cls, first_bytes=data[:16].hex(), size=len(data)) if cls in ('magic+zeros', 'fasta') else None)
		ctx.count(f'foreign:{cls}')
		w = dict(cls=cls, size=len(data), first_bytes=data[:32].hex())
		try:
			h = load_signatures(str(path))
		except SignaturesFileError:
			ctx.count('refused:SignaturesFileError')
		except Exception as e:
			if cls == 'corrupted-superblock':
				# a real signature file with flipped header bytes still *bears the marker*: outside the domain; record only
				ctx.count(f'corrupted-superblock-refused:{type(e).__name__}')
			else:
				mech = 'foreign-wrong-error:invalid-hdf5-after-magic' if cls in ('magic+zeros', 'magic-only', 'magic+random', 'truncated-signature-file') else f'foreign-wrong-error:{cls}'
				ctx.violation(mech, f'{cls}: refused with {type(e).__name__} ({str(e)[:120]}) instead of SignaturesFileError', w)
		else:
			if cls == 'corrupted-superblock':
				ctx.count('corrupted-superblock-still-loads')
				h.close()
			else:
				ctx.violation('foreign-accepted', f'{cls}: load_signatures returned {h!r}', w)
				try:
					h.close()
				except Exception:
					pass
		path.unlink()
	ctx.notes['fd_growth_over_foreign_files'] = nfds() - fd0


def run_cli(sh, ctx):
	"""`gambit signatures info` (plain / --json / --ids) on freshly written files, and refusal of foreign files by the CLI."""
	from vf import clidrv
	from gambit.sigs.base import dump_signatures
	rng = random.Random(f'C12-cli-{ctx.seed}')
	for i in range(sh['n']):
		obj, sigs, ks, ids, meta, comp, desc = gen_case(rng)
		path = ctx.workdir / f'i{i}.gs'
		kw = {'compression': comp[0]} if comp[0] else {}
		dump_signatures(str(path), obj, **kw)
		ctx.case(('cli-info', desc), nontrivial=True)
		ctx.count('cli_info_files')
		code, so, se, exc = clidrv.run_inproc(['signatures', 'info', '-j', path])
		if code != 0:
			if meta is not None and meta.extra is None:
				# `info -j` cannot serialise extra=None (AttributeError in the JSON converter). The statement is about dump/load, not about
				# this command's own robustness: recorded as an observation, not judged.
				ctx.count('cli_info_json_crashes_on_extra_None(observation)')
				continue
			ctx.violation('cli-info-fails', f'signatures info -j exited {code}: {se[-200:]} {exc}', desc)
			continue
		try:
			j = json.loads(so)
		except ValueError as e:
			ctx.violation('cli-info-json', f'signatures info -j printed invalid JSON: {e}; {so[:200]!r}', desc)
			continue
		em = meta
		exp_meta = {f: (None if em is None else getattr(em, f)) for f in ('id', 'name', 'version', 'id_attr', 'description')}
				# the command is an observation channel: judged only on what it does report (a renamed / dropped key is not a round-trip failure)
		bad = []
		if 'count' in j and j['count'] != len(sigs):
			bad.append(f'count={j["count"]} written {len(sigs)}')
		if isinstance(j.get('kmerspec'), dict) and {'k', 'prefix'} <= set(j['kmerspec']) and (j['kmerspec']['k'], j['kmerspec']['prefix']) != (ks.k, ks.prefix_str):
			bad.append(f'kmerspec={j["kmerspec"]} written {ks}')
		for f in exp_meta:
			if isinstance(j.get('metadata'), dict) and f in j['metadata'] and j['metadata'][f] != exp_meta[f]:
				bad.append(f'metadata.{f}={j["metadata"][f]!r} written {exp_meta[f]!r}')
		if isinstance(j.get('metadata'), dict) and 'extra' in j['metadata'] and json.dumps(j['metadata']['extra'], sort_keys=True) != json.dumps({} if em is None else em.extra, sort_keys=True):
			bad.append(f'metadata.extra={j["metadata"]["extra"]!r}')
		if bad:
			ctx.violation('cli-info-content', 'signatures info -j reports something else than what was written: ' + '; '.join(bad), desc)
		exp_ids = [str(x) for x in (range(len(sigs)) if ids is None else list(ids))]
		if all('\n' not in x and '\r' not in x for x in exp_ids):
			code, so, se, exc = clidrv.run_inproc(['signatures', 'info', '-i', path])
			got = so.split('\n')
			if got and got[-1] == '':
				got = got[:-1]
			ctx.evals += 1
			if code != 0 or got != exp_ids:
				ctx.violation('cli-info-ids', f'signatures info -i printed {got[:5]} expected {exp_ids[:5]} (exit {code})', desc)
		code, so, se, exc = clidrv.run_inproc(['signatures', 'info', path])
		if code != 0:
			ctx.violation('cli-info-fails', f'signatures info (plain) exit {code}: {se[-200:]} {exc}', desc)
		os.unlink(path)
	# foreign files through the CLI: non-zero exit, no traceback-free success
	for cls, p in list(foreign_cases(rng, ctx.workdir, 0)):
		if cls == 'corrupted-superblock':
			continue
		code, so, se, exc = clidrv.run_inproc(['signatures', 'info', p])
		ctx.case(('cli-foreign', cls, p.read_bytes()[:32].hex()), nontrivial=True)
		ctx.count('cli_foreign_files')
		if code == 0:
			ctx.violation('foreign-accepted', f'signatures info on a {cls} file exited 0: {so[:120]!r}', dict(cls=cls))


def run_shard(sh, ctx):
	if sh['kind'] == 'foreign':
		return run_foreign(sh, ctx)
	if sh['kind'] == 'cli':
		return run_cli(sh, ctx)
	rng = random.Random(f'C12-{ctx.seed}-{sh.get("sub", "allk")}')
	if sh['kind'] == 'allk':
		for k in range(1, 33):
			for comp in ((None, None), ('gzip', 4), ('lzf', None)):
				obj, sigs, ks, ids, meta, _, desc = gen_case(rng, k=k)
				desc['compression'] = list(comp)
				check_roundtrip(ctx, obj, sigs, ks, ids, meta, comp, desc, ctx.workdir / f'k{k}.gs')
		return
	fd0 = nfds()
	prev = None
	for i in range(sh['n']):
		# history: a few paths are reused over and over in this process; every third case is a *different* collection with the same
		# number of signatures and the same kind of ids as the previous one, written to the same path
		if prev is not None and i % 3 == 2:
			obj, sigs, ks, ids, meta, comp, desc = gen_case(rng, force_n=prev[0], force_idk=prev[1] if prev[1] != 'default' else 'str')
			path = prev[2]
			ctx.count('same_path_same_shape_rewrites')
		else:
			obj, sigs, ks, ids, meta, comp, desc = gen_case(rng)
			path = ctx.workdir / f'c{i % 4}.gs'
		prev = (len(sigs), desc['id_kind'], path)
		if i % 5 == 1:
			# a write that fails part-way (ids of an unsupported kind are rejected after the attributes were written) to the same path first
			from gambit.sigs.base import dump_signatures, AnnotatedSignatures, SignatureList
			try:
				dump_signatures(str(path), AnnotatedSignatures(SignatureList(list(sigs), ks, dtype=ks.index_dtype), [0.5 + j for j in range(len(sigs))]))
				ctx.count('float_ids_accepted')
			except Exception:
				ctx.count('failing_writes_interleaved')
		check_roundtrip(ctx, obj, sigs, ks, ids, meta, comp, desc, path)
	ctx.notes['fd_growth_over_roundtrips'] = nfds() - fd0


def finalize(merged, tier, seed, inconclusive):
	c = merged['counters']
	need = ['k_width:uint8', 'k_width:uint16', 'k_width:uint32', 'k_width:uint64', 'container:sigarray', 'container:siglist', 'container:sigarray+annotated', 'container:siglist+annotated',
	        'ids:str', 'ids:pyint', 'ids:uint64', 'ids:default', 'ids:perm', 'compression:None/None', 'compression:lzf/None', 'compression:gzip/9', 'compression:gzip/0',
	        'foreign:empty', 'foreign:fasta', 'foreign:hdf5-datasets-only', 'foreign:magic+zeros', 'foreign:sqlite', 'refused:SignaturesFileError', 'cli_info_files', 'cli_foreign_files', 'same_path_same_shape_rewrites']
	for n in need:
		if c.get(n, 0) == 0:
			inconclusive.append(f'class never observed: {n}')
	if len(merged['sets'].get('k_values', ())) < 32:
		inconclusive.append('not every k in 1..32 written')
	return dict(exhaustive=False)
