"""C04 - each reference genome is compared through its own signature, matched by ID.

Monitor: on loaded databases (signature file permuted, padded with unrelated signatures, any of the four
identifier attributes) the pairing ids[sig_indices[i]] == id(genomes[i]) is asserted and every distance
reported for a genome is compared with the exact distance to *that genome's* signature; every way of
violating completeness / the directory layout must make loading fail."""

import os
import random
import shutil

import numpy as np

from vf.oracles import jaccard as J

LEVEL = 'exploration'
RULE = ('cases = (genome set, identifier attribute, signature order, interleaved unrelated signatures, value dtype) for loading + '
        'querying, and negative cases (each genome\'s signature dropped in turn, renamed id, id_attr missing / misspelt / NULL column / '
        'wrong kind, directory with 0/2 genome or signature files); signatures are pairwise distinct so a misalignment changes a '
        'distance; non-trivial = >=2 genomes or a negative case; distinct = full case by hash')
ASSUMPTIONS = ['duplicate ids inside a signature file are outside the stated domain ("unique IDs")', '"fails with an error" = any exception / non-zero CLI exit']
REACH = ['gambit.db.refdb:ReferenceDatabase.__init__', 'gambit.db.refdb:genomes_by_id_subset', 'gambit.db.refdb:genomes_by_id', 'gambit.db.refdb:ReferenceDatabase.locate_files',
         'gambit.db.refdb:_check_genomes_have_ids', 'gambit.metric:jaccarddist_matrix', 'gambit.query:query']
ID_ATTRS = ['key', 'genbank_acc', 'refseq_acc', 'ncbi_id']


def shards(tier, seed):
	n = 8 if tier == 'quick' else 32
	out = [dict(name=f'pos-{i}', kind='pos', sub=i, nworlds=10 if tier == 'quick' else 60) for i in range(n)]
	out.append(dict(name='neg', kind='neg', nworlds=6 if tier == 'quick' else 40))
	out.append(dict(name='big', kind='big', sizes=[1100] if tier == 'quick' else [1001, 1100, 2300]))
	out.append(dict(name='dirs', kind='dirs'))
	out.append(dict(name='cli', kind='cli', nworlds=3 if tier == 'quick' else 12))
	for s_ in out:
		if s_.get('kind') in ['pos'] and not s_.get('sanitizer'):
			s_['contracts'] = ['C04']
	out.append(dict(name='suite-contracts', kind='suite-contracts', which=['C04'], tests=['tests/db', 'tests/test_query.py']))
	return out


def distinct_world(rng, ng=None):
	from vf import world as W
	k, prefix = rng.choice([(6, 'AT'), (7, 'ACG'), (9, 'TA'), (12, 'GAT')])
	w = W.World(k, prefix)
	W.gen_taxonomy(rng, w, nt=rng.randint(1, 6), names='plain')
	ng = ng or (rng.randint(1, 14) if rng.random() < 0.75 else rng.choice([17, 24, 40, 70]))   # also sets large enough for block-read / multi-chunk paths
	nq = rng.randint(1, 4)
	m = 10
	B = nq * m
	for i in range(ng):
		sig = set()
		for j in range(nq):
			sig |= set(range(j * m, j * m + rng.randint(0, m)))
		sig |= set(range(B + i * 12, B + i * 12 + 1 + (i % 11)))   # own block of distinct size: every signature differs from every other
		W.add_genome(w, rng, i, rng.randrange(len(w.taxa)), sig, names_pool=['plain'])
	for j in range(nq):
		w.queries.append(dict(label=f'q{j}', sig=sorted(set(range(j * m, (j + 1) * m)) | {B + rng.randrange(ng) * 12}), contigs=None))
	for e in range(rng.randint(0, 10)):
		w.extra.append(dict(id=f'unrelated/{e}', int_id=900000 + e, sig=sorted(rng.sample(range(min(4 ** k, 3000)), rng.randint(0, 15)))))
	w.finalize()
	W.assign_thresholds(rng, w)
	return w


def check_loaded(ctx, w, db, id_attr, order, desc):
	"""Pairing invariant + every reported distance."""
	from gambit.query import query, QueryParams
	from gambit.db.models import Genome
	n = len(w.genomes)
	ids = list(db.signatures.ids)
	if len(db.genomes) != n or len(db.sig_indices) != n:
		ctx.violation('genome-list-incomplete', f'db.genomes has {len(db.genomes)} entries, sig_indices {len(db.sig_indices)}, genome set {n}', desc)
		return
	keys = [g.key for g in db.genomes]
	if sorted(keys) != sorted(g['key'] for g in w.genomes):
		ctx.violation('genome-list-incomplete', f'db.genomes keys {keys} differ from the genome set', desc)
		return
	for g, si in zip(db.genomes, db.sig_indices):
		gid = getattr(g.genome, id_attr)
		fid = ids[si]
		fid = fid if isinstance(fid, str) else int(fid)
		ctx.evals += 1
		if fid != gid:
			ctx.violation('genome-paired-with-foreign-signature', f'genome {g.key} ({id_attr}={gid!r}) paired with signature id {fid!r} at file position {si}', desc)
			return
	by_key = {g['key']: gi for gi, g in enumerate(w.genomes)}
	qs = [np.array(q['sig'], dtype=w.dtype) for q in w.queries]
	for chunk in (None, 1, 3, 16, None):    # several queries on the SAME database object: the first one must not disturb the later ones
		res = query(db, qs, QueryParams(report_closest=n + 3, chunksize=chunk))
		for qi, item in enumerate(res.items):
			seen = set()
			for m in item.closest_genomes:
				gi = by_key[m.genome.key]
				seen.add(gi)
				ctx.evals += 1
				if J.bits(m.distance) != J.bits(w.dist(qi, gi)):
					others = [w.genomes[x]['key'] for x in range(n) if J.bits(w.dist(qi, x)) == J.bits(m.distance)]
					ctx.violation('distance-from-foreign-signature', f'query {qi}: distance reported for {m.genome.key} is {float(m.distance)!r}, its own signature gives {w.dist(qi, gi)!r}'
					              + (f' (that is the distance of {others[:3]})' if others else ''), dict(desc, chunksize=chunk))
					return
			if len(seen) != n:
				ctx.violation('genome-list-incomplete', f'query {qi}: {len(seen)} distinct genomes reported of {n}', desc)
				return
	# one query running while another one is served from the same loaded database: the caller's progress hook (a documented
	# parameter) starts a second query after the first row of the first chunk was computed, then lets the first one continue
	if len(qs) >= 2 and n >= 2:
		state = dict(fired=False, inner=None)

		class Meter:
			def __init__(self): self.n = 0
			def increment(self, delta=1):
				self.n += delta
				if not state['fired']:
					state['fired'] = True
					state['inner'] = query(db, qs[::-1], QueryParams(report_closest=n + 3, chunksize=2))
			def moveto(self, v): self.n = v
			def close(self): pass
			def __enter__(self): return self
			def __exit__(self, *a): pass

		def factory(total, initial=0, **kw):
			return Meter()
		outer = query(db, qs, QueryParams(report_closest=n + 3, chunksize=3), progress=factory)
		ctx.count('interleaved_queries_on_one_database' if state['fired'] else 'interleaving_hook_never_called')
		for name, res, order in (('the query that was running', outer, list(range(len(qs)))), ('the query started meanwhile', state['inner'], list(range(len(qs)))[::-1])):
			if res is None:
				continue
			for qi, item in zip(order, res.items):
				for m in item.closest_genomes:
					gi = by_key[m.genome.key]
					ctx.evals += 1
					if J.bits(m.distance) != J.bits(w.dist(qi, gi)):
						ctx.violation('distance-from-foreign-signature', f'two queries interleaved on one loaded database ({name}): distance reported for {m.genome.key} is {float(m.distance)!r}, its own signature gives {w.dist(qi, gi)!r}', dict(desc, interleaved=True))
						return


def run_pos(sh, ctx):
	from gambit.db import ReferenceDatabase
	rng = random.Random(f'C04-{ctx.seed}-{sh["sub"]}')
	for wi in range(sh['nworlds']):
		w = distinct_world(rng)
		n = len(w.genomes)
		for id_attr in ID_ATTRS:
			ok = rng.choice(['sorted', 'reversed', 'random'])
			order = list(range(n))
			if ok == 'reversed':
				order.reverse()
			elif ok == 'random':
				rng.shuffle(order)
			dt = rng.choice([w.dtype, 'u8', 'i8']) if w.k <= 12 else w.dtype
			restore = None
			if n >= 2 and id_attr != 'ncbi_id' and rng.random() < 0.35:
				# two genomes whose identifiers are different strings that LOOK the same (NFC / NFD spelling, trailing blank, other case):
				# each has its own signature under its own identifier
				a_, b_ = rng.sample(range(n), 2)
				base_ = 'sample-' + rng.choice(['x', 'iso_A', 'Z9'])
				pair = rng.choice([(base_ + '\u00e9', base_ + 'e\u0301'), (base_, base_ + ' '), (base_, base_.swapcase()), (base_ + '\u212b', base_ + '\u00c5'), (base_, base_ + '\u200b')])
				restore = (a_, w.genomes[a_][id_attr], b_, w.genomes[b_][id_attr])
				w.genomes[a_][id_attr], w.genomes[b_][id_attr] = pair
				ctx.count('look_alike_identifier_pairs')
			d = ctx.workdir / f'w{wi}_{id_attr}'
			two_sets = rng.random() < 0.3
			w.write_db(d, sig_order=order, id_attr=id_attr, with_extra=True, sig_dtype=dt, interleave_seed=rng.random(), second_genomeset=two_sets)
			desc = dict(id_attr=id_attr, order=ok, sig_order=order, n=n, n_extra=len(w.extra), file_ids=[str(x) for x in w.last_file_ids][:30], dtype=str(dt))
			ctx.case(('pos', sh['sub'], wi, id_attr, order), nontrivial=n >= 2, sample=desc if wi == 0 and id_attr in ('key', 'ncbi_id') else None)
			ctx.count(f'id_attr:{id_attr}'); ctx.count(f'order:{ok}'); ctx.count('with_unrelated_signatures' if w.extra else 'without_unrelated_signatures')
			if n > 1 and rng.random() < 0.25:
				dbad = ctx.workdir / f'w{wi}_{id_attr}_bad'
				w.write_db(dbad, sig_order=order, id_attr=id_attr, drop_sig_of=rng.randrange(n))
				try:
					bad = ReferenceDatabase.load_from_dir(dbad)
					bad.signatures.close(); bad.session.close()
				except Exception:
					ctx.count('failing_loads_interleaved')
				shutil.rmtree(dbad, ignore_errors=True)
			try:
				if two_sets:
					# the genome file holds a second genome set that annotates the same genomes with its own taxa: the database is then
					# built through the public constructor for the set that was asked for, and only that set's annotations belong to it
					from gambit.db.sqla import file_sessionmaker
					from gambit.db.models import ReferenceGenomeSet
					from gambit.sigs.base import load_signatures
					session_ = file_sessionmaker(d / 'genomes.gdb')()
					gset_ = session_.query(ReferenceGenomeSet).filter_by(key=w.gset['key']).one()
					db = ReferenceDatabase(gset_, load_signatures(str(d / 'signatures.gs')))
					ctx.count('databases_built_for_one_of_two_genome_sets')
					foreign = [g.key for g in db.genomes if g.genome_set_id != gset_.id]
					if foreign:
						ctx.violation('genome-paired-with-foreign-signature', f'db.genomes holds annotations of ANOTHER genome set of the same file: {foreign[:4]}', desc)
				else:
					db = ReferenceDatabase.load_from_dir(d)
			except Exception as e:
				ctx.violation('valid-database-refused', f'{"ReferenceDatabase(genome set, signatures)" if two_sets else "load_from_dir"} raised {type(e).__name__}: {e}', desc)
				if restore:
					w.genomes[restore[0]][id_attr], w.genomes[restore[2]][id_attr] = restore[1], restore[3]
				continue
			try:
				check_loaded(ctx, w, db, id_attr, order, desc)
			finally:
				db.signatures.close(); db.session.close()
			if wi % 2 == 0 and n >= 2:
				try:
					rekey_history(ctx, w, d, id_attr, order, desc, rng)
				except Exception as e:
					ctx.inconc(f'rekey history: harness raised {type(e).__name__}: {e}')
				if restore:
					w.genomes[restore[0]][id_attr], w.genomes[restore[2]][id_attr] = restore[1], restore[3]
			shutil.rmtree(d, ignore_errors=True)


def rekey_history(ctx, w, d, id_attr, order, desc, rng):
	"""One long-lived genome-set object, several databases built from it, the identifiers edited and committed in between: every
	database is paired by the identifier values the genomes have WHEN IT IS BUILT (nothing remembered from an earlier build)."""
	import copy
	from gambit.db import ReferenceDatabase
	from gambit.db.sqla import file_sessionmaker
	from gambit.db.models import ReferenceGenomeSet, Genome
	from gambit.sigs.base import load_signatures
	n = len(w.genomes)
	session = file_sessionmaker(d / 'genomes.gdb', readonly=False)()
	sigs = load_signatures(str(d / 'signatures.gs'))
	desc = dict(desc, history='build, swap the identifiers of two genomes, commit, build again from the same genome-set object')
	try:
		gset = session.query(ReferenceGenomeSet).filter_by(key=w.gset['key']).one()
		try:
			db1 = ReferenceDatabase(gset, sigs)
		except Exception as e:
			ctx.violation('valid-database-refused', f'ReferenceDatabase(genome set, signatures) raised {type(e).__name__}: {e}', desc)
			return
		check_loaded(ctx, w, db1, id_attr, order, dict(desc, build=1))
		a, b = rng.sample(range(n), 2)
		ga = session.query(Genome).filter_by(key=w.genomes[a]['key']).one()
		gb = session.query(Genome).filter_by(key=w.genomes[b]['key']).one()
		va, vb = getattr(ga, id_attr), getattr(gb, id_attr)
		tmp = 'tmp-while-swapping' if isinstance(va, str) else 2 ** 40 + 12345
		setattr(ga, id_attr, tmp); session.flush()
		setattr(gb, id_attr, va); session.flush()
		setattr(ga, id_attr, vb); session.commit()
		w2 = copy.copy(w)
		w2.genomes = [dict(g) for g in w.genomes]
		w2._dist_cache = {}
		if id_attr != 'key':
			# genome a now carries b's identifier, hence b's signature, and the other way round (with 'key' the rows simply trade names)
			for f in (id_attr, 'sig', 'sigset'):
				w2.genomes[a][f], w2.genomes[b][f] = w2.genomes[b][f], w2.genomes[a][f]
		try:
			db2 = ReferenceDatabase(gset, sigs)
		except Exception as e:
			ctx.violation('valid-database-refused', f'second build after swapping two identifiers raised {type(e).__name__}: {e}', desc)
			return
		ctx.count('databases_rebuilt_from_one_genome_set_after_identifier_edit')
		check_loaded(ctx, w2, db2, id_attr, order, dict(desc, build=2, swapped=[w.genomes[a]['key'], w.genomes[b]['key']]))
		# third build: one genome re-keyed to an identifier that has no signature in the file -> "some genome has no signature"
		gone = 'no-signature-has-this-id' if isinstance(va, str) else 2 ** 40 + 777
		setattr(ga, id_attr, gone); session.commit()
		ctx.count('negative:rekeyed-to-identifier-without-signature')
		try:
			db3 = ReferenceDatabase(gset, sigs)
		except Exception as e:
			ctx.seen('load_error_types', f'rekeyed-without-signature:{type(e).__name__}')
		else:
			ctx.violation('incomplete-database-loaded:rekeyed-without-signature', f'third build: genome {ga.key} has {id_attr}={gone!r}, no signature carries that identifier, yet a database with {len(db3.genomes)} genomes was built', desc)
		# fourth build, after the refused one, from the same genome-set object AND the same open signature file: the identifier is put
		# back, the database is valid again and must be paired and answer exactly like the second one (a refused build leaves nothing behind)
		setattr(ga, id_attr, vb); session.commit()
		try:
			db4 = ReferenceDatabase(gset, sigs)
		except Exception as e:
			ctx.violation('valid-database-refused', f'build after a refused build (identifier restored) raised {type(e).__name__}: {e}', desc)
			return
		ctx.count('databases_built_after_a_refused_build_from_the_same_objects')
		check_loaded(ctx, w2, db4, id_attr, order, dict(desc, build=4, history=desc['history'] + ', re-key one genome to an identifier without signature (build refused), restore it, build again'))
	finally:
		sigs.close()
		session.close()


def expect_load_failure(ctx, d, cls, desc):
	from gambit.db import ReferenceDatabase
	ctx.case(('neg', cls, str(sorted(desc.items(), key=str))), nontrivial=True, sample=dict(cls=cls, **desc) if cls in ('dropped-signature',) else None)
	ctx.count(f'negative:{cls}')
	try:
		db = ReferenceDatabase.load_from_dir(d)
	except Exception as e:
		ctx.seen('load_error_types', f'{cls}:{type(e).__name__}')
		return True
	ctx.violation(f'incomplete-database-loaded:{cls}', f'{cls}: load_from_dir returned a database with {len(db.genomes)} genomes', desc)
	db.signatures.close(); db.session.close()
	return False


def run_neg(sh, ctx):
	import sqlite3
	rng = random.Random(f'C04-neg-{ctx.seed}')
	for wi in range(sh['nworlds']):
		w = distinct_world(rng, ng=rng.randint(1, 7))
		n = len(w.genomes)
		id_attr = rng.choice(ID_ATTRS)
		order = list(range(n)); rng.shuffle(order)
		# each genome's signature dropped in turn
		for gi in range(n):
			if n == 1 and not w.extra:
				continue   # a signature file without any signature cannot be written at all
			d = ctx.workdir / f'n{wi}_drop{gi}'
			w.write_db(d, sig_order=order, id_attr=id_attr, drop_sig_of=gi)
			expect_load_failure(ctx, d, 'dropped-signature', dict(id_attr=id_attr, dropped=gi, n=n))
			shutil.rmtree(d)
		# a genome without signature whose id is a near miss of an id that IS in the file (extension, prefix, other case, trailing
		# blank; for integer ids: equal modulo 2^8 / 2^16 / 2^32, negated): still "some genome has no signature"
		if n >= 2:
			a, b = rng.sample(range(n), 2)
			orig = w.genomes[a][id_attr]
			bid = w.genomes[b][id_attr]
			if isinstance(bid, str):
				cands = [('extends', bid + '7'), ('extends', bid + '0' * 5), ('prefix', bid[:-1]), ('case', bid.swapcase()), ('trailing-blank', bid + ' '), ('leading-blank', ' ' + bid), ('nul', bid + '\0x'),
				         ('trailing-cr', bid + '\r'), ('trailing-tab', bid + '\t'), ('trailing-newline', bid + '\n'), ('nbsp', bid + '\u00a0'), ('zero-width', bid + '\u200b'),
				         # canonically equivalent spellings (NFC vs NFD) and compatibility characters are DIFFERENT identifiers: b gets the one, a the other
				         ('nfd-of-nfc', bid + 'e\u0301', bid + '\u00e9'), ('nfc-of-nfd', bid + '\u00e9', bid + 'e\u0301'), ('angstrom-vs-a-ring', bid + '\u212b', bid + '\u00c5'), ('fullwidth', bid + '\uff21', bid + 'A')]
			else:
				cands = [('mod-2^8', bid + 256), ('mod-2^16', bid + 65536), ('mod-2^32', bid + 2 ** 32), ('negated', -bid), ('mod-2^31', bid + 2 ** 31)]
			taken = {g[id_attr] for g in w.genomes}
			for kind, nid, *bnew in cands:
				if nid in taken or nid == '':
					continue
				w.genomes[a][id_attr] = nid
				if bnew:
					w.genomes[b][id_attr] = bnew[0]
				d = ctx.workdir / f'n{wi}_near_{kind}'
				try:
					w.write_db(d, sig_order=order, id_attr=id_attr, drop_sig_of=a)
				except Exception as e:
					ctx.count(f'near-miss-not-writable:{kind}')       # e.g. NUL in an HDF5 string: the harness cannot build the case
					shutil.rmtree(d, ignore_errors=True)
					continue
				finally:
					w.genomes[a][id_attr] = orig
					w.genomes[b][id_attr] = bid
				expect_load_failure(ctx, d, 'near-miss-id', dict(id_attr=id_attr, kind=kind, missing_id=repr(nid), similar_id_in_file=repr(bid), n=n))
				ctx.count(f'near-miss-id:{kind}')
				shutil.rmtree(d)
		# renamed id
		d = ctx.workdir / f'n{wi}_ren'
		orig = w.genomes[0][id_attr]
		w.genomes[0][id_attr] = (orig + '-renamed') if isinstance(orig, str) else orig + 1
		w.write_signatures(ctx.workdir / 'tmp.gs', sig_order=order, id_attr=id_attr)
		w.genomes[0][id_attr] = orig
		w.write_db(d, sig_order=order, id_attr=id_attr)
		shutil.move(str(ctx.workdir / 'tmp.gs'), str(d / 'signatures.gs'))
		expect_load_failure(ctx, d, 'renamed-id', dict(id_attr=id_attr, n=n))
		shutil.rmtree(d)
		# id_attr missing / misspelt / not an id attribute
		for cls, meta in (('id_attr-none', None), ('id_attr-misspelt', id_attr + 'x'), ('id_attr-not-an-id-column', 'description'), ('id_attr-empty', '')):
			d = ctx.workdir / f'n{wi}_{cls}'
			w.write_db(d, sig_order=order, id_attr=id_attr, id_attr_meta=meta)
			expect_load_failure(ctx, d, cls, dict(id_attr=id_attr, meta=meta, n=n))
			shutil.rmtree(d)
		# the id_attr attribute is not in the file at all (deleted with a generic HDF5 tool / written by other software); the ids stored
		# are the genomes' keys, so a reader that guessed "key" would find every genome
		d = ctx.workdir / f'n{wi}_noattr'
		w.write_db(d, sig_order=order, id_attr='key')
		import h5py as _h5
		with _h5.File(d / 'signatures.gs', 'r+') as f_:
			if 'id_attr' in f_.attrs:
				del f_.attrs['id_attr']
		expect_load_failure(ctx, d, 'id_attr-attribute-absent', dict(n=n))
		shutil.rmtree(d)
		# id attribute column where some genome has NULL
		if id_attr != 'key':
			d = ctx.workdir / f'n{wi}_null'
			w.write_db(d, sig_order=order, id_attr=id_attr)
			con = sqlite3.connect(str(d / 'genomes.gdb'))
			con.execute(f'update genomes set {id_attr} = NULL where id = ?', (rng.randint(1, n),)); con.commit(); con.close()
			expect_load_failure(ctx, d, 'null-id-column', dict(id_attr=id_attr, n=n))
			shutil.rmtree(d)
		# ids of the wrong kind: strings for the integer column, integers for a string column
		d = ctx.workdir / f'n{wi}_kind'
		w.write_db(d, sig_order=order, id_attr='ncbi_id')
		saved = [g['ncbi_id'] for g in w.genomes]
		for g in w.genomes:
			g['ncbi_id'] = str(g['ncbi_id'])
		w.write_signatures(d / 'signatures.gs', sig_order=order, id_attr='ncbi_id')
		for g, s in zip(w.genomes, saved):
			g['ncbi_id'] = s
		expect_load_failure(ctx, d, 'ids-of-wrong-kind', dict(n=n))
		shutil.rmtree(d)


def run_dirs(sh, ctx):
	from gambit.db import ReferenceDatabase
	rng = random.Random(f'C04-dirs-{ctx.seed}')
	w = distinct_world(rng, ng=4)
	base = ctx.workdir / 'base'
	w.write_db(base)
	gdb, gs = base / 'genomes.gdb', base / 'signatures.gs'
	t = 0

	def mk(files, subdirs=()):
		nonlocal t
		t += 1
		d = ctx.workdir / f'd{t}'
		d.mkdir()
		for name, src in files:
			shutil.copy(src, d / name)
		for s in subdirs:
			(d / s).mkdir()
		return d
	bad = {
		'no-files': [],
		'no-genome-file': [('s.gs', gs)],
		'no-signature-file': [('g.gdb', gdb)],
		'two-gdb': [('a.gdb', gdb), ('b.gdb', gdb), ('s.gs', gs)],
		'gdb-and-db': [('a.gdb', gdb), ('b.db', gdb), ('s.gs', gs)],
		'two-db': [('a.db', gdb), ('b.db', gdb), ('s.h5', gs)],
		'two-gs': [('a.gdb', gdb), ('s.gs', gs), ('t.gs', gs)],
		'gs-and-h5': [('a.gdb', gdb), ('s.gs', gs), ('t.h5', gs)],
		'two-h5': [('a.db', gdb), ('s.h5', gs), ('t.h5', gs)],
		'wrong-extensions': [('a.sqlite', gdb), ('s.hdf5', gs)],
		# a second genome / signature file whose name begins with a dot is still a second file
		'dot-named-second-gdb': [('a.gdb', gdb), ('.old.gdb', gdb), ('s.gs', gs)],
		'dot-named-second-db': [('a.gdb', gdb), ('._a.db', gdb), ('s.gs', gs)],
		'dot-named-second-gs': [('a.gdb', gdb), ('s.gs', gs), ('.partial.gs', gs)],
		'dot-named-second-h5': [('a.db', gdb), ('s.h5', gs), ('.s.h5', gs)],
	}
	for cls, files in bad.items():
		d = mk(files)
		expect_load_failure(ctx, d, f'dir:{cls}', dict(files=[f[0] for f in files]))
	# a sub-directory with the right extension counts as a second match or not? it must at least not yield a *wrong* database:
	good = {
		'gdb+gs': [('a.gdb', gdb), ('s.gs', gs)],
		'db+h5': [('a.db', gdb), ('s.h5', gs)],
		'gdb+h5+unrelated': [('a.gdb', gdb), ('s.h5', gs), ('README.md', gs), ('notes.txt', gdb), ('x.gdb.bak', gdb), ('y.gs.old', gs)],
		'db+gs+dotfile': [('a.db', gdb), ('s.gs', gs), ('.hidden', gs)],
	}
	good['dot-named-files-only'] = [('.a.gdb', gdb), ('.s.gs', gs)]
	# directory names containing characters that mean something to glob / fnmatch / the shell; siblings whose names such a pattern
	# would match hold ANOTHER database (w2), so that loading the sibling instead is visible
	w2 = distinct_world(rng, ng=3)
	special = {}
	for nm, sibs in (('db[12]', ['db1', 'db2']), ('rel*', ['release']), ('v?', ['v1']), ('a[b', []), ('with space and {braces}', []), ('~tilde', []), ('%40d', [])):
		root = ctx.workdir / f'sp{len(special)}'
		root.mkdir()
		for sname in sibs:
			w2.write_db(root / sname)
		d = root / nm
		d.mkdir()
		shutil.copy(gdb, d / 'a.gdb'); shutil.copy(gs, d / 's.gs')
		special[f'dirname:{nm}'] = d
		# and the same name EMPTY next to valid siblings: nothing to load here
		root2 = ctx.workdir / f'spe{len(special)}'
		root2.mkdir()
		for sname in sibs:
			w2.write_db(root2 / sname)
		(root2 / nm).mkdir()
		if sibs:
			expect_load_failure(ctx, root2 / nm, 'dir:empty-with-pattern-like-name', dict(dirname=nm, siblings=sibs))
	for cls, files in list(good.items()) + [(k_, None) for k_ in special]:
		if files is None:
			d = special[cls]
			(d / 'subdir').mkdir()
			files = [('a.gdb', gdb), ('s.gs', gs)]
		else:
			d = mk(files, subdirs=('subdir', 'more.d'))
		# files inside sub-directories must be ignored
		shutil.copy(gdb, d / 'subdir' / 'inner.gdb'); shutil.copy(gs, d / 'subdir' / 'inner.gs')
		ctx.case(('dir-good', cls), nontrivial=True)
		ctx.count(f'directory_ok:{cls}')
		try:
			db = ReferenceDatabase.load_from_dir(d)
		except Exception as e:
			if cls.startswith('dirname:'):
				# the statement does not promise that every directory NAME works (on the unchanged tree a '?' in the path ends the SQLite
				# URL); what it excludes is a database that is not this directory's - recorded, not judged
				ctx.count(f'directory_name_refused:{cls[8:]}:{type(e).__name__}')
				continue
			ctx.violation('valid-database-refused', f'directory {cls} refused: {type(e).__name__}: {e}', dict(files=[f[0] for f in files]))
			continue
		try:
			check_loaded(ctx, w, db, 'key', None, dict(dir=cls))
		finally:
			db.signatures.close(); db.session.close()


def run_cli(sh, ctx):
	"""gambit query -f archive on permuted / padded signature files: distances per genome key."""
	from vf import world as W
	rng = random.Random(f'C04-cli-{ctx.seed}')
	for wi in range(sh['nworlds']):
		w = distinct_world(rng)
		n = len(w.genomes)
		id_attr = rng.choice(ID_ATTRS)
		order = list(range(n)); rng.shuffle(order)
		d = w.write_db(ctx.workdir / f'c{wi}', sig_order=order, id_attr=id_attr, interleave_seed=wi)
		res = W.run_query_archive(d, w)
		ctx.case(('cli', wi, id_attr, order), nontrivial=n >= 2)
		ctx.count('cli_commands')
		desc = dict(id_attr=id_attr, sig_order=order, n=n)
		if res is None:
			ctx.violation('valid-database-refused', 'gambit query failed on a valid database', desc)
			continue
		by_key = {g['key']: gi for gi, g in enumerate(w.genomes)}
		for qi, it in enumerate(res):
			for m in it['closest_genomes'] + [it['closest']]:
				gi = by_key[m['genome']]
				ctx.evals += 1
				if J.bits(m['distance']) != J.bits(w.dist(qi, gi)):
					ctx.violation('distance-from-foreign-signature', f'CLI: query {qi}: distance for {m["genome"]} is {m["distance"]!r}, its own signature gives {w.dist(qi, gi)!r}', desc)
					break
		# negative through the CLI: a dropped signature must give a non-zero exit
		from vf import clidrv
		if n == 1 and not w.extra:
			continue   # dropping the only signature would leave a file that cannot be written at all
		d2 = w.write_db(ctx.workdir / f'c{wi}_drop', sig_order=order, id_attr=id_attr, drop_sig_of=rng.randrange(n))
		qs = w.write_query_sigs(ctx.workdir / f'c{wi}_q.gs')
		out = ctx.workdir / f'c{wi}_drop.csv'
		code, so, se, exc = clidrv.run_inproc(['-d', d2, 'query', '-o', out, '--no-progress', '-s', qs])
		ctx.count('negative:cli-dropped-signature')
		if code == 0:
			ctx.violation('incomplete-database-loaded:cli', 'gambit query exited 0 on a database with a genome lacking a signature', desc)


def run_big(sh, ctx):
	"""More reference genomes than the default reference chunk size (1000): the multi-chunk path of the default query parameters,
	through the API (default QueryParams) and the command line (which cannot change the chunk size)."""
	from vf import world as W
	from gambit.db import ReferenceDatabase
	rng = random.Random(f'C04-big-{ctx.seed}')
	for n in sh['sizes']:
		w = distinct_world(rng, ng=n)
		order = list(range(n)); rng.shuffle(order)
		id_attr = rng.choice(ID_ATTRS)
		d = w.write_db(ctx.workdir / f'big{n}', sig_order=order, id_attr=id_attr, interleave_seed=n)
		desc = dict(id_attr=id_attr, n=n, n_extra=len(w.extra), big=True)
		ctx.case(('big', n, id_attr), nontrivial=True, sample=desc)
		ctx.count('big_databases')
		db = ReferenceDatabase.load_from_dir(d)
		try:
			from gambit.query import query, QueryParams
			by_key = {g['key']: gi for gi, g in enumerate(w.genomes)}
			qs = [np.array(q['sig'], dtype=w.dtype) for q in w.queries]
			for params in (QueryParams(report_closest=n), QueryParams(report_closest=n, chunksize=999), QueryParams(report_closest=n)):
				res = query(db, qs, params)
				for qi, item in enumerate(res.items):
					if len(item.closest_genomes) != n:
						ctx.violation('genome-list-incomplete', f'{len(item.closest_genomes)} genomes reported of {n}', desc); break
					for m in item.closest_genomes:
						ctx.evals += 1
						gi = by_key[m.genome.key]
						if J.bits(m.distance) != J.bits(w.dist(qi, gi)):
							ctx.violation('distance-from-foreign-signature', f'big database (default chunking): distance for {m.genome.key} is {float(m.distance)!r}, its own signature gives {w.dist(qi, gi)!r}', desc)
							break
		finally:
			db.signatures.close(); db.session.close()
		res = W.run_query_archive(d, w)
		ctx.count('cli_commands')
		if res is None:
			ctx.violation('valid-database-refused', 'gambit query failed on a big valid database', desc)
			continue
		for qi, it in enumerate(res):
			for m in it['closest_genomes'] + [it['closest']]:
				ctx.evals += 1
				if J.bits(m['distance']) != J.bits(w.dist(qi, by_key[m['genome']])):
					ctx.violation('distance-from-foreign-signature', f'CLI on a big database: distance for {m["genome"]} is {m["distance"]!r}', desc)
					break


def run_shard(sh, ctx):
	if sh['kind'] == 'big':
		return run_big(sh, ctx)
	{'pos': run_pos, 'neg': run_neg, 'dirs': run_dirs, 'cli': run_cli}[sh['kind']](sh, ctx)


def finalize(merged, tier, seed, inconclusive):
	c = merged['counters']
	need = [f'id_attr:{a}' for a in ID_ATTRS] + ['order:random', 'order:reversed', 'with_unrelated_signatures', 'negative:dropped-signature', 'negative:renamed-id',
	        'negative:id_attr-none', 'negative:id_attr-attribute-absent', 'negative:id_attr-misspelt', 'negative:null-id-column', 'negative:ids-of-wrong-kind', 'negative:dir:two-gdb', 'negative:dir:no-signature-file',
	        'directory_ok:db+h5', 'cli_commands', 'big_databases', 'interleaved_queries_on_one_database', 'negative:near-miss-id', 'look_alike_identifier_pairs', 'databases_built_for_one_of_two_genome_sets', 'databases_rebuilt_from_one_genome_set_after_identifier_edit', 'negative:rekeyed-to-identifier-without-signature', 'databases_built_after_a_refused_build_from_the_same_objects']
	for n in need:
		if c.get(n, 0) == 0:
			inconclusive.append(f'class never observed: {n}')
	return dict(exhaustive=False)
