"""C05 - bulk and parallel distance computations agree bit-for-bit with the pairwise one.

Monitor: every cell of jaccarddist_array / _matrix / _pairwise is compared (uint32 view) with
np.float32(jaccarddist(q, r)) of the pair the caller's order designates; caller-supplied output
views are surrounded by NaN canaries; every multi-threaded call is repeated under the dynamic
OpenMP schedule; a slice runs against ASan+UBSan and TSan builds of the generated C."""

import os
import random
import itertools

import numpy as np

from vf.props import _metric as M

LEVEL = 'exploration'
RULE = ('cases = (signature collection, container type, value dtype, query dtype, function, chunk size, index selection, '
        'output-buffer kind, OpenMP thread count, repetition); collections of 0..40 signatures incl. empty / single-element / '
        'duplicate / one huge; chunk_slices enumerated exhaustively for n<=40,size<=45; non-trivial = result has >=1 cell; '
        'distinct = configuration + collection by hash (repetitions of one configuration count once)')
ASSUMPTIONS = ['the per-cell oracle is the real two-signature function (the property is relative to it; C02 ties it to the exact value)',
               'TSan cannot see libgomp barriers: reports are filtered as described in DESIGN.md 2.4']
REACH = ['gambit.metric:jaccarddist_array', 'gambit.metric:jaccarddist_matrix', 'gambit.metric:jaccarddist_pairwise',
         'gambit.util.misc:chunk_slices', 'gambit.sigs.base:ConcatenatedSignatureArray._getitem_slice',
         'gambit.sigs.base:ConcatenatedSignatureArray._getitem_int_array']
CONTAINERS = ['sigarray', 'sigarray-view', 'siglist', 'pylist', 'annotated', 'hdf5', 'pylist-mixed', 'siglist-mixed']
JOBS = {'quick': 8, 'thorough': 12}


def shards(tier, seed):
	out = [dict(name='chunk-slices', kind='chunks')]
	n = 14 if tier == 'quick' else 48
	for i in range(n):
		active = tier == 'thorough' and i % 8 == 1   # spinning waiters under oversubscription are very slow on a loaded machine: thorough tier only
		out.append(dict(name=f'cfg-{i}', kind='cfg', sub=i, ncoll=(3 if active else 10) if tier == 'quick' else (4 if active else 16), nconf=70 if tier == 'quick' else 160,
		                reps=5 if tier == 'quick' else 50, env={'OMP_NUM_THREADS': '16', 'OMP_WAIT_POLICY': 'active' if active else 'passive'}))
	for i in range(2 if tier == 'quick' else 8):
		out.append(dict(name=f'siglist-history-{i}', kind='slhist', sub=300 + i, nhist=15 if tier == 'quick' else 60, env={'OMP_NUM_THREADS': '4'}))
	out.append(dict(name='large-collections', kind='large', sub=900, rounds=4 if tier == 'quick' else 30, env={'OMP_NUM_THREADS': '16'}))
	out.append(dict(name='same-file-operands', kind='samefile', sub=800, rounds=6 if tier == 'quick' else 60))
	out.append(dict(name='several-containers-open', kind='twoopen', sub=850, rounds=6 if tier == 'quick' else 60))
	out.append(dict(name='two-threads', kind='twothreads', sub=700, rounds=6 if tier == 'quick' else 60, env={'OMP_NUM_THREADS': '4'}))
	out.append(dict(name='asan-cfg', kind='cfg', sub=500, ncoll=3 if tier == 'quick' else 10, nconf=40 if tier == 'quick' else 120, reps=2, sanitizer='asan',
	                env={'OMP_NUM_THREADS': '8'}))
	out.append(dict(name='tsan-cfg', kind='tsan', sub=600, ncoll=3 if tier == 'quick' else 8, nconf=25 if tier == 'quick' else 80, sanitizer='tsan',
	                env={'OMP_NUM_THREADS': '8'}))
	for s_ in out:
		if s_.get('kind') in ['cfg'] and not s_.get('sanitizer'):
			s_['contracts'] = ['C05', 'C20']
	out.append(dict(name='suite-contracts', kind='suite-contracts', which=['C05', 'C20'], tests=['tests/test_metric.py']))
	return out


# ------------------------------------------------------------------------------------------------

def gen_collection(rng, n=None):
	"""list of sorted unique int lists (python), values < 2^15 so that every dtype can hold them, plus optional offset."""
	if n is None:
		n = rng.choice([0, 1, 2, 3, 5, 8, 13, 17, 25, 40])
	span = rng.choice([8, 50, 400, 5000])
	sigs = []
	for i in range(n):
		c = rng.random()
		if c < 0.15:
			s = []
		elif c < 0.3:
			s = [rng.randrange(span)]
		elif c < 0.45 and sigs:
			s = list(rng.choice(sigs))          # duplicate of another signature
		elif c < 0.5:
			s = sorted(rng.sample(range(30000), rng.choice([2000, 10000])))  # one huge
		else:
			s = sorted(rng.sample(range(span), rng.randint(1, min(span, 60))))
		sigs.append(s)
	return sigs


def build_container(kind, sigs, dt, ctx, tag):
	"""-> (container object, list of per-item arrays as the oracle sees them, closer)"""
	from gambit.sigs.base import SignatureArray, SignatureList, AnnotatedSignatures, SignaturesMeta, dump_signatures, load_signatures
	from gambit.kmers import KmerSpec
	ks = KmerSpec(8, 'AT')
	arrs = [np.array(s, dtype=dt) for s in sigs]
	closer = lambda: None
	if kind == 'sigarray':
		c = SignatureArray(arrs, ks, dtype=np.dtype(dt))
	elif kind == 'sigarray-view':
		pad1 = [np.array([1, 2, 3], dtype=dt), np.array([], dtype=dt)]
		pad2 = [np.array([5], dtype=dt)]
		big = SignatureArray(pad1 + arrs + pad2, ks, dtype=np.dtype(dt))
		c = big[2:2 + len(arrs)]
		assert isinstance(c, SignatureArray)
	elif kind == 'siglist':
		c = SignatureList(arrs, ks, dtype=np.dtype(dt))
	elif kind in ('pylist-mixed', 'siglist-mixed'):
		# references of different integer widths in one list (a list-backed collection only records the type of its first element)
		r_ = random.Random(tag)
		arrs = []
		for s in sigs:
			d_ = r_.choice(M.DTYPES)
			isz = np.dtype(d_).itemsize
			# wider elements also hold values that the narrower ones cannot represent (the first element's width says nothing about the rest)
			ext = ({x + 2 ** 16 for x in list(s)[:3]} if isz >= 4 else set()) | ({x + 2 ** 32 for x in list(s)[:2]} if isz == 8 else set())
			arrs.append(np.array(sorted(set(s) | ext), dtype=d_))
		c = list(arrs) if kind == 'pylist-mixed' else SignatureList(list(arrs), ks)
	elif kind == 'pylist':
		c = list(arrs)
	elif kind == 'annotated':
		c = AnnotatedSignatures(SignatureArray(arrs, ks, dtype=np.dtype(dt)), [f'id{i}' for i in range(len(arrs))], SignaturesMeta(id='x'))
	elif kind == 'hdf5':
		path = ctx.workdir / f'{tag}.gs'
		dump_signatures(str(path), AnnotatedSignatures(SignatureArray(arrs, ks, dtype=np.dtype(dt)), [f'id{i}' for i in range(len(arrs))], SignaturesMeta(id='x')))
		c = load_signatures(str(path))
		closer = c.close
	else:
		raise ValueError(kind)
	return c, arrs, closer


def oracle_matrix(gm, qarrs, rarrs):
	E = np.empty((len(qarrs), len(rarrs)), dtype='f4')
	for i, q in enumerate(qarrs):
		for j, r in enumerate(rarrs):
			E[i, j] = np.float32(gm.jaccarddist(q, r))
	return E


def cmp_bits(ctx, got, exp, mech, what, w):
	if not isinstance(got, np.ndarray) or got.dtype != np.float32 or got.shape != exp.shape:
		ctx.violation('shape-dtype', f'{what}: got {getattr(got, "dtype", type(got))}{getattr(got, "shape", "")} expected float32{exp.shape}', w)
		return False
	g, e = np.ascontiguousarray(got).view('u4'), np.ascontiguousarray(exp).view('u4')
	if not np.array_equal(g, e):
		idx = tuple(int(x) for x in np.argwhere(g != e)[0])
		ctx.violation(mech, f'{what}: cell {idx} = {got[idx]!r} expected {exp[idx]!r} ({int((g != e).sum())} of {g.size} cells differ)', w)
		return False
	return True


def make_out(rng, shape, kind):
	"""-> (out view or None, big canary array or None)"""
	if kind == 'none':
		return None, None
	if kind == 'exact':
		o = np.full(shape, np.nan, dtype='f4')
		return o, o
	if kind == 'canary':
		big = np.full(tuple(s + 2 for s in shape), np.nan, dtype='f4')
		return big[tuple(slice(1, -1) for _ in shape)], big
	if kind == 'strided':
		big = np.full(tuple(2 * s + 2 for s in shape), np.nan, dtype='f4')
		return big[tuple(slice(1, 2 * s + 1, 2) for s in shape)], big
	raise ValueError(kind)


def check_canary(ctx, big, out, kind, what, w):
	if big is None or kind in ('none',):
		return
	if np.isnan(out).any():
		ctx.violation('cell-unwritten', f'{what}: {int(np.isnan(out).sum())} cells of the caller\'s buffer left unwritten', w)
	if kind in ('canary', 'strided'):
		mask = np.ones(big.shape, dtype=bool)
		if kind == 'canary':
			mask[tuple(slice(1, -1) for _ in big.shape)] = False
		else:
			mask[tuple(slice(1, big.shape[d] - 1, 2) for d in range(big.ndim))] = False
		if not np.isnan(big[mask]).all():
			ctx.violation('write-outside-out', f'{what}: cells outside the caller\'s output view were written', w)
		ctx.count('canary_checks')


def index_selection(rng, n, kind):
	if kind == 'none' or n == 0:
		return None
	if kind == 'perm':
		idx = list(range(n)); rng.shuffle(idx)
	elif kind == 'subset':
		idx = sorted(rng.sample(range(n), rng.randint(1, n)))
	elif kind == 'repeats':
		idx = [rng.randrange(n) for _ in range(rng.randint(1, n + 3))]
	elif kind == 'reversed':
		idx = list(range(n - 1, -1, -1))
	elif kind == 'negative':
		idx = [j - n if rng.random() < 0.7 else j for j in rng.sample(range(n), rng.randint(max(n // 2, 1), n))]     # positions counted from the end
	else:
		raise ValueError(kind)
	return idx


def run_config(ctx, gm, rng, coll, cont_kind, cobj, rarrs, qarrs, E, threads, reps, tag):
	"""One random configuration on a prepared container. E = oracle matrix (queries x refs)."""
	from gambit._cython.threads import omp_set_num_threads
	n = len(rarrs)
	fn = rng.choice(['array', 'matrix', 'matrix', 'pairwise'])
	if run_config.Eself is None and fn == 'pairwise':
		fn = 'matrix'       # large collections under the sanitizer: no all-pairs oracle
	outk = rng.choice(['none', 'exact', 'canary', 'strided'])
	omp_set_num_threads(threads)
	w = dict(fn=fn, container=cont_kind, n=n, threads=threads, out=outk, tag=tag)
	key = [tag, fn, cont_kind, threads, outk]
	if fn == 'array':
		qi = rng.randrange(len(qarrs))
		exp = E[qi, :]
		w['query'] = qi
		ctx.case(key + [qi], nontrivial=n > 0)
		for r in range(reps if threads > 1 and cont_kind in ('sigarray', 'sigarray-view') else 1):
			out, big = make_out(rng, (n,), outk)
			got = gm.jaccarddist_array(qarrs[qi], cobj, out=out)
			ctx.count('calls:array'); ctx.count('cells', n); ctx.evals += 1
			if not cmp_bits(ctx, got, exp, 'cell-bits', f'array[{cont_kind}]', w):
				break
			if out is not None and not cmp_bits(ctx, out, exp, 'cell-bits', f'array[{cont_kind}] (caller\'s buffer)', w):
				break
			check_canary(ctx, big, out, outk, 'array', w)
			if r:
				ctx.count('repetitions')
	elif fn == 'matrix':
		ik = rng.choice(['none', 'perm', 'subset', 'repeats', 'reversed', 'negative'])
		idx = index_selection(rng, n, ik)
		as_nd = rng.random() < 0.5
		csz = rng.choice([None, 1, 2, 3, max(n - 1, 1), n or 1, n + 1, n + 2, rng.randint(1, n + 2)])
		nq = rng.randint(1, len(qarrs))
		qsel = [rng.randrange(len(qarrs)) for _ in range(nq)]
		cols = list(range(n)) if idx is None else idx
		exp = E[np.ix_(qsel, cols)] if cols else np.empty((nq, 0), 'f4')
		w.update(indices=ik, chunksize=csz, queries=qsel, idx=cols[:50], idx_ndarray=as_nd)
		ctx.case(key + [ik, csz, qsel, cols], nontrivial=len(cols) > 0)
		ctx.count(f'index_kind:{ik}'); ctx.count(f'chunking:{"none" if csz is None else ("1" if csz == 1 else (">n" if csz > len(cols) else "mid"))}')
		ri = None if idx is None else (np.array(idx, dtype=rng.choice(['i8', 'i4', 'intp'])) if as_nd else list(idx))
		ri_copy = None if ri is None else (ri.copy() if as_nd else list(ri))
		for r in range(min(reps, 3) if threads > 1 else 1):
			out, big = make_out(rng, (nq, len(cols)), outk)
			got = gm.jaccarddist_matrix([qarrs[i] for i in qsel], cobj, ref_indices=ri, out=out, chunksize=csz)
			ctx.count('calls:matrix'); ctx.count('cells', nq * len(cols)); ctx.evals += 1
			if not cmp_bits(ctx, got, exp, 'cell-bits', f'matrix[{cont_kind},{ik},chunk={csz}]', w):
				break
			if out is not None and not cmp_bits(ctx, out, exp, 'cell-bits', f'matrix[{cont_kind},{ik},chunk={csz}] (caller\'s buffer)', w):
				break
			check_canary(ctx, big, out, outk, 'matrix', w)
			if ri is not None and not np.array_equal(np.asarray(ri), np.asarray(ri_copy)):
				ctx.violation('caller-indices-modified', 'ref_indices changed by the call', w)
	else:
		ik = rng.choice(['none', 'none', 'perm', 'subset', 'repeats'])
		idx = index_selection(rng, n, ik)
		flat = rng.random() < 0.5
		sel = list(range(n)) if idx is None else idx
		m = len(sel)
		# pairwise is among the collection itself: oracle from ref x ref
		Eself = run_config.Eself
		full = Eself[np.ix_(sel, sel)] if sel else np.empty((0, 0), 'f4')
		if flat:
			exp = np.array([full[i, j] for i in range(m) for j in range(i + 1, m)], dtype='f4')
		else:
			exp = full.copy()
			# the property fixes the diagonal at zero (repeated indices keep distance 0 anyway)
			np.fill_diagonal(exp, 0)
		w.update(indices=ik, flat=flat, idx=sel[:50])
		ctx.case(key + [ik, flat, sel], nontrivial=m > 1)
		ctx.count(f'pairwise:{"flat" if flat else "square"}')
		shape = (m * (m - 1) // 2,) if flat else (m, m)
		if outk == 'strided' and not flat:
			outk = 'canary'
		for r in range(min(reps, 3) if threads > 1 else 1):
			out, big = make_out(rng, shape, outk)
			got = gm.jaccarddist_pairwise(cobj, indices=None if idx is None else (np.array(idx) if rng.random() < 0.5 else list(idx)), flat=flat, out=out)
			ctx.count('calls:pairwise'); ctx.count('cells', int(np.prod(shape))); ctx.evals += 1
			if not cmp_bits(ctx, got, exp, 'cell-bits', f'pairwise[{cont_kind},{ik},flat={flat}]', w):
				break
			if out is not None and not cmp_bits(ctx, out, exp, 'cell-bits', f'pairwise[{cont_kind},{ik},flat={flat}] (caller\'s buffer)', w):
				break
			if not flat and m:
				if not np.array_equal(got.view('u4'), got.T.copy().view('u4')):
					ctx.violation('pairwise-asymmetric', 'square pairwise matrix is not symmetric', w)
				if np.diagonal(got).any():
					ctx.violation('pairwise-diagonal', 'diagonal not zero', w)
			check_canary(ctx, big, out, outk, 'pairwise', w)


def run_shard(sh, ctx):
	import gambit.metric as gm
	from gambit.util.misc import chunk_slices
	if sh['kind'] == 'chunks':
		ctx.notes['exhaustive_scopes'] = ['chunk_slices(n, size) for n in 0..40, size in 1..45']
		for n in range(0, 41):
			for size in range(1, 46):
				sl = list(chunk_slices(n, size))
				flat = [i for s in sl for i in range(n)[s]]
				ctx.case(('chunks', n, size), nontrivial=n > 0)
				ok = flat == list(range(n)) and all(len(range(n)[s]) == size for s in sl[:-1]) and all(0 < len(range(n)[s]) <= size for s in sl)
				if not ok:
					ctx.violation('chunk-slices', f'chunk_slices({n},{size}) = {sl}', dict(n=n, size=size))
		for bad in (0, -1):
			try:
				list(chunk_slices(5, bad))
				ctx.violation('chunk-slices', f'chunk_slices(5,{bad}) did not raise', dict(size=bad))
			except ValueError:
				ctx.count('chunk_size_rejected')
		return
	if sh['kind'] == 'tsan':
		return run_tsan(sh, ctx, gm)
	if sh['kind'] == 'slhist':
		return run_siglist_history(sh, ctx, gm)
	if sh['kind'] == 'twoopen':
		return run_two_open(sh, ctx, gm)
	if sh['kind'] == 'twothreads':
		return run_two_threads(sh, ctx, gm)
	if sh['kind'] == 'samefile':
		return run_same_file(sh, ctx, gm)
	if sh['kind'] == 'large':
		return run_large(sh, ctx, gm)

	from gambit._cython.threads import omp_set_num_threads, omp_get_max_threads, get_thread_ids
	rng = random.Random(f'C05-{ctx.seed}-{sh["sub"]}')
	maxthreads = 0
	for ci in range(sh['ncoll']):
		# under the sanitizer: some collections large enough that NumPy allocates values / bounds / out exactly (>= 1 KiB bypasses its
		# small-block cache), so that a one-element overrun lands in an ASan red zone instead of allocator padding
		coll = gen_collection(rng, rng.choice([257, 300])) if (sh.get('sanitizer') and ci % 2 == 0) else gen_collection(rng)
		n = len(coll)
		qdt = rng.choice(M.DTYPES)
		queries = [rng.choice(coll) if coll and rng.random() < 0.4 else s for s in gen_collection(rng, rng.randint(1, 5))]
		if rng.random() < 0.4:
			# a wide query holding k-mers far beyond what a narrower reference dtype can represent (x + 2^16, x + 2^32 "twins" of reference values)
			qdt = rng.choice(['u4', 'u8', 'i8', 'i4'])
			shift = 65536 if qdt in ('u4', 'i4') or rng.random() < 0.5 else 2 ** 32
			queries = [sorted(set(q) | {x + shift for x in rng.sample(q, min(len(q), 3))} | {shift, shift + 7}) for q in queries]
			ctx.count('wide_queries_beyond_narrow_reference_range')
		qarrs = [np.array(q, dtype=qdt) for q in queries]
		smp = dict(n_refs=n, sizes=[len(s) for s in coll][:20], query_dtype=qdt, n_queries=len(qarrs))
		big = n > 100
		for cont_kind in (CONTAINERS if not big else ['sigarray', 'sigarray-view', 'hdf5']):
			dt = rng.choice(M.DTYPES)
			if cont_kind in ('pylist', 'hdf5', 'pylist-mixed', 'siglist-mixed') and n == 0:
				continue  # SignatureList([]) without k-mer parameters cannot be built by a caller either
			tag = f'c{ci}-{cont_kind}-{dt}'
			cobj, rarrs, closer = build_container(cont_kind, coll, dt, ctx, tag)
			try:
				E = oracle_matrix(gm, qarrs, rarrs)
				run_config.Eself = None if big else oracle_matrix(gm, rarrs, rarrs)
				ctx.count(f'container:{cont_kind}'); ctx.count(f'ref_dtype:{dt}'); ctx.count(f'query_dtype:{qdt}')
				for k in range(max(sh['nconf'] // len(CONTAINERS), 4)):
					threads = rng.choice([1, 2, 3, 4, 7, 8, 16, 16])
					ctx.seen('thread_counts', threads)
					if k % 5 == 2:
						# a failing call (wrong output shape / dtype) in between: later calls must be unaffected
						for badout in (np.zeros(len(rarrs) + 1, 'f4'), np.zeros(len(rarrs), 'f8')):
							try:
								gm.jaccarddist_array(qarrs[0], cobj, out=badout)
								ctx.count('bad_out_accepted')
							except ValueError:
								ctx.count('failing_calls_interleaved')
					run_config(ctx, gm, rng, coll, cont_kind, cobj, rarrs, qarrs, E, threads, sh['reps'], tag)
					if threads > 1:
						tids = set(get_thread_ids(64))
						maxthreads = max(maxthreads, len(tids))
						ctx.seen('omp_threads_participating', len(tids))
			finally:
				closer()
		if ci == 0:
			ctx.samples.append(smp)
	ctx.notes['max_os_threads'] = len(os.listdir('/proc/self/task'))
	ctx.notes['max_omp_threads_seen'] = maxthreads


# ------------------------------------------------------------------------------------------------

def run_tsan(sh, ctx, gm):
	"""TSan workload: only the parallel kernel, explicit out= buffers that are all kept alive."""
	from gambit._cython.threads import omp_set_num_threads
	from gambit.sigs.base import SignatureArray
	rng = random.Random(f'C05-tsan-{ctx.seed}')
	keep = []
	for ci in range(sh['ncoll']):
		# the last collection is large (a threshold on the number of references may decide whether a thread team is started at all)
		coll = gen_collection(rng, rng.choice([5, 17, 40])) if ci < sh['ncoll'] - 1 else [sorted(rng.sample(range(400), rng.randint(0, 12))) for _ in range(rng.choice([1030, 2100, 4200]))]
		if ci == sh['ncoll'] - 1:
			ctx.count('tsan_large_collections')
		dt = rng.choice(['u2', 'u4', 'u8'])
		arrs = [np.array(s, dtype=dt) for s in coll]
		sa = SignatureArray(arrs, None, dtype=np.dtype(dt))
		keep.append(sa)
		for k in range(sh['nconf'] if len(coll) < 1000 else 6):
			q = np.array(rng.choice(coll), dtype=rng.choice(['u2', 'u4', 'u8']))
			omp_set_num_threads(rng.choice([2, 4, 8]))
			out = np.full(len(sa), np.nan, dtype='f4')
			keep.append(out); keep.append(q)
			gm.jaccarddist_array(q, sa, out=out)
			exp = np.array([np.float32(gm.jaccarddist(q, a)) for a in arrs], dtype='f4')
			ctx.case(('tsan', ci, k), nontrivial=True)
			ctx.count('tsan_parallel_regions')
			cmp_bits(ctx, out, exp, 'cell-bits', 'array under TSan', dict(ci=ci, k=k))


def run_siglist_history(sh, ctx, gm):
	"""The same SignatureList object is handed to the bulk functions, mutated (append / insert / extend / += / setitem / delitem /
	pop / reverse), and handed to them again: every result must reflect the list as it is *now*."""
	from gambit.sigs.base import SignatureList
	from gambit.kmers import KmerSpec
	rng = random.Random(f'C05-slhist-{ctx.seed}-{sh["sub"]}')
	ks = KmerSpec(8, 'AT')
	for h in range(sh['nhist']):
		dt = rng.choice(M.DTYPES)
		model = [np.array(s, dtype=dt) for s in gen_collection(rng, rng.randint(1, 10))]
		sl = SignatureList(list(model), ks, dtype=np.dtype(dt))
		q = np.array(sorted(rng.sample(range(400), 20)), dtype=rng.choice(M.DTYPES))
		trace = []
		for step in range(rng.randint(4, 14)):
			new = lambda: np.array(sorted(rng.sample(range(400), rng.randint(0, 25))), dtype=dt)
			n = len(model)
			op = rng.choice(['append', 'insert', 'extend', 'iadd', 'setitem', 'delitem', 'pop', 'reverse', 'none'])
			if op == 'append':
				v = new(); sl.append(v); model.append(v)
			elif op == 'insert':
				i = rng.randint(0, n); v = new(); sl.insert(i, v); model.insert(i, v)
			elif op == 'extend':
				vs = [new(), new()]; sl.extend(vs); model.extend(vs)
			elif op == 'iadd':
				vs = [new()]; sl += vs; model += vs
			elif op == 'setitem' and n:
				i = rng.randrange(n); v = new(); sl[i] = v; model[i] = v
			elif op == 'delitem' and n > 1:
				i = rng.randrange(n); del sl[i]; del model[i]
			elif op == 'pop' and n > 1:
				sl.pop(); model.pop()
			elif op == 'reverse':
				sl.reverse(); model.reverse()
			trace.append(op)
			exp = np.array([np.float32(gm.jaccarddist(q, r)) for r in model], dtype='f4')
			fn = rng.choice(['array', 'array', 'matrix', 'pairwise'])
			w = dict(history=trace[-12:], fn=fn, n=len(model))
			if fn == 'array':
				out = np.full(len(model), np.nan, dtype='f4') if rng.random() < 0.5 else None
				got = gm.jaccarddist_array(q, sl, out=out)
			elif fn == 'matrix':
				got = gm.jaccarddist_matrix([q], sl, chunksize=rng.choice([None, 2]))[0]
			else:
				got = gm.jaccarddist_pairwise(sl)
				exp = np.array([[0 if i == j else np.float32(gm.jaccarddist(a, b)) for j, b in enumerate(model)] for i, a in enumerate(model)], dtype='f4').reshape(len(model), len(model))
			ctx.evals += 1
			ctx.count('siglist_history_steps')
			if not cmp_bits(ctx, got, exp, 'cell-bits', f'{fn} on a SignatureList after {op}', w):
				break
		ctx.case(('slhist', sh['sub'], h, trace), nontrivial=True, sample=dict(history=trace) if h == 0 else None)


def run_large(sh, ctx, gm):
	"""Thousands of references in one call (a real database has tens of thousands), many threads, repeated: sizes on both sides of
	1024, 2048, 4096 and 2^16 / the default chunk size, small signatures so that the threads finish close together."""
	from gambit._cython.threads import omp_set_num_threads
	from gambit.sigs.base import SignatureArray
	rng = random.Random(f'C05-large-{ctx.seed}')
	for rd in range(sh['rounds']):
		n = rng.choice([1023, 1024, 1025, 2049, 3000, 4097, 6000] + ([66000] if ctx.tier == 'thorough' else []))
		span = rng.choice([40, 400])
		coll = [sorted(rng.sample(range(span), rng.randint(0, 10))) for _ in range(n)]
		dt = rng.choice(['u2', 'u4', 'u8'])
		arrs = [np.array(s, dtype=dt) for s in coll]
		sa = SignatureArray(arrs, None, dtype=np.dtype(dt))
		qs = [np.array(rng.choice(coll), dtype=rng.choice(['u2', 'u4', 'u8'])) for _ in range(3)]
		exp = oracle_matrix(gm, qs, arrs)
		for threads in (16, 8, 2, 1):
			omp_set_num_threads(threads)
			for rep in range(3 if threads > 1 else 1):
				w = dict(n=n, dtype=dt, threads=threads, repetition=rep)
				ctx.case(('large', rd, n, threads, rep), nontrivial=True, sample=w if rd == 0 and rep == 0 and threads == 16 else None)
				ctx.count(f'large_collection_calls:threads={threads}')
				got = gm.jaccarddist_matrix(qs, sa, chunksize=rng.choice([None, 1000, 5000])) if rep % 2 else np.stack([gm.jaccarddist_array(q, sa) for q in qs])
				if not cmp_bits(ctx, got, exp, 'cell-bits', f'{n} references, {threads} threads', w):
					break
		ctx.seen('large_collection_sizes', n)


def run_same_file(sh, ctx, gm):
	"""Queries and references are both taken from ONE open container (slices, index lists and masks of the same signature file or
	array, obtained before the call and kept alive), compared all-against-all in chunks: "compare part of my collection with the
	rest of it". Every cell must be the pairwise value, and the operands must still hold their signatures afterwards."""
	rng = random.Random(f'C05-sf-{ctx.seed}')
	for rd in range(sh['rounds']):
		n = rng.choice([24, 64, 90])
		coll = gen_collection(rng, n)
		dt = rng.choice(['u2', 'u4', 'u8'])
		kind = rng.choice(['hdf5', 'hdf5', 'sigarray', 'annotated'])
		cont, arrs, closer = build_container(kind, coll, dt, ctx, f'sf{rd}')
		try:
			def part():
				c = rng.random()
				if c < 0.5:
					a = rng.randrange(n); b = rng.randint(a + 1, n)
					return slice(a, b), list(range(a, b))
				if c < 0.8:
					l = [rng.randrange(n) for _ in range(rng.randint(1, n // 2))]
					return l, l
				m = np.array([rng.random() < 0.4 for _ in range(n)]); m[rng.randrange(n)] = True
				return m, [i for i in range(n) if m[i]]
			for rep in range(5):
				(qi, qpos), (ri, rpos) = part(), part()
				whole = rep % 2 == 0
				qsub = cont[qi]
				rsub = cont if whole else cont[ri]
				if whole:
					rpos = list(range(n))
				if rep == 4:
					# the very same object as both operands (all-against-all through the matrix entry point)
					(ri, sub_pos) = part()
					if rng.random() < 0.5:
						qsub = rsub = cont; qpos = rpos = list(range(n))
					else:
						qsub = rsub = cont[ri]; qpos = rpos = list(sub_pos)
					qi = ri = 'the same object as the references'
					ctx.count('same_object_as_both_operands')
				extra = cont[part()[0]]       # another part taken after the operands (and not used): must not disturb them
				chunk = rng.choice([None, 1, 5, 16, 1000])
				w = dict(container=kind, n=n, dtype=dt, queries=repr(qi)[:80], refs='the whole container' if whole else repr(ri)[:80], chunksize=chunk)
				ctx.case(('samefile', rd, rep, kind, n), nontrivial=True, sample=w if rd == 0 and rep < 2 else None)
				ctx.count(f'same_container_operands:{kind}')
				exp = oracle_matrix(gm, [arrs[i] for i in qpos], [arrs[i] for i in rpos])
				try:
					got = gm.jaccarddist_matrix(qsub, rsub, chunksize=chunk)
				except Exception as e:
					ctx.violation('bulk-raises', f'jaccarddist_matrix(part, other part of the same {kind}) raised {type(e).__name__}: {e}', w)
					continue
				if not cmp_bits(ctx, got, exp, 'cell-bits', f'queries and references taken from the same {kind}', w):
					continue
				for name, sub, pos in (('queries', qsub, qpos), ('references', rsub, rpos)):
					ctx.evals += 1
					if len(sub) != len(pos) or not all(np.array_equal(sub[j], arrs[i]) for j, i in enumerate(pos)):
						ctx.violation('operand-changed', f'the {name} sub-collection no longer holds its signatures after the call', w)
						break
				del extra
		finally:
			closer()


def run_two_open(sh, ctx, gm):
	"""Two or three reference containers (at least two of them signature files) open AT THE SAME TIME, with different numbers and sizes
	of signatures, used in turn for bulk calls: what one of them was asked before must not show in what the other one answers."""
	rng = random.Random(f'C05-open-{ctx.seed}')
	for rd in range(sh['rounds']):
		kinds = ['hdf5', 'hdf5', rng.choice(['hdf5', 'sigarray', 'annotated'])]
		conts = []
		try:
			sizes = rng.sample([6, 9, 12, 17, 24, 31], 3)
			if rd % 2:
				sizes.sort(reverse=True)       # the file used first is the larger one
			for ci, kind in enumerate(kinds):
				coll = gen_collection(rng, sizes[ci])
				dt = rng.choice(['u2', 'u4', 'u8'])
				cont, arrs, closer = build_container(kind, coll, dt, ctx, f'open{rd}_{ci}')
				conts.append((kind, cont, arrs, closer, dt))
			qcoll = gen_collection(rng, 3)
			qs = [np.array(s, dtype='u4') for s in qcoll]
			for step in range(9):
				ci = step % 3 if step < 6 else rng.randrange(3)
				kind, cont, arrs, closer, dt = conts[ci]
				n = len(arrs)
				op = ['matrix', 'matrix-chunked', 'matrix-indices', 'pairwise', 'array', 'matrix-slice'][(step + rd) % 6]
				w = dict(containers=[(k, len(a)) for k, _, a, _, _ in conts], used_now=ci, operation=op, step=step)
				ctx.case(('twoopen', rd, step, op), nontrivial=True, sample=w if rd == 0 and step < 2 else None)
				ctx.count('bulk_calls_with_several_containers_open'); ctx.count(f'several_open:{op}')
				try:
					if op == 'matrix':
						got, exp = gm.jaccarddist_matrix(qs, cont, chunksize=None), oracle_matrix(gm, qs, arrs)
					elif op == 'matrix-chunked':
						got, exp = gm.jaccarddist_matrix(qs, cont, chunksize=5), oracle_matrix(gm, qs, arrs)
					elif op == 'matrix-indices':
						idx = [rng.randrange(n) for _ in range(rng.randint(1, n))]
						got, exp = gm.jaccarddist_matrix(qs, cont, ref_indices=idx, chunksize=rng.choice([None, 4])), oracle_matrix(gm, qs, [arrs[i] for i in idx])
					elif op == 'pairwise':
						got, exp = gm.jaccarddist_pairwise(cont), oracle_matrix(gm, arrs, arrs)
					elif op == 'array':
						got, exp = gm.jaccarddist_array(qs[0], cont), oracle_matrix(gm, qs[:1], arrs)[0]
					else:
						a = rng.randrange(n); b = rng.randint(a + 1, n)
						got, exp = gm.jaccarddist_matrix(qs, cont[a:b], chunksize=None), oracle_matrix(gm, qs, arrs[a:b])
				except Exception as e:
					ctx.violation('bulk-raises', f'{op} on container {ci} ({kind}, {n} signatures) raised {type(e).__name__}: {e}', w)
					continue
				ctx.evals += 1
				cmp_bits(ctx, got, exp, 'cell-bits', f'{op} on container {ci} ({kind}) while the other containers are open', w)
		finally:
			for _, _, _, closer, _ in conts:
				closer()


def run_two_threads(sh, ctx, gm):
	"""Two Python threads call the bulk functions at the same time on shared references (each with its own output): every cell of
	both results must still be the pairwise value (the native kernel releases the GIL, so the calls really overlap)."""
	import threading
	from gambit.sigs.base import SignatureArray, SignatureList
	from gambit._cython.threads import omp_set_num_threads
	rng = random.Random(f'C05-2t-{ctx.seed}')
	for rd in range(sh['rounds']):
		coll = gen_collection(rng, rng.choice([40, 120]))
		dt = rng.choice(['u2', 'u4', 'u8'])
		arrs = [np.array(s, dtype=dt) for s in coll]
		sa = SignatureArray(arrs, None, dtype=np.dtype(dt))
		sl = SignatureList(list(arrs), None, dtype=np.dtype(dt))
		qs = [np.array(rng.choice(coll), dtype=dt) for _ in range(4)]
		exp = oracle_matrix(gm, qs, arrs)
		h5, _a, h5close = build_container('hdf5', coll, dt, ctx, f'tt{rd}')
		omp_set_num_threads(rng.choice([1, 2, 4]))
		results, errors = {}, []
		barrier = threading.Barrier(2)

		def work(tid, cont):
			try:
				barrier.wait(30)
				out = []
				for rep in range(6):
					out.append(gm.jaccarddist_matrix(qs, cont, chunksize=rng.choice([None, 7, 50])) if (tid + rep) % 2 else np.stack([gm.jaccarddist_array(q, cont) for q in qs]))
				results[tid] = out
			except Exception as e:
				errors.append(f'{type(e).__name__}: {e}')
		shared = [(sa, sa), (sa, sl), (h5, h5)][rd % 3]
		ts = [threading.Thread(target=work, args=(0, shared[0])), threading.Thread(target=work, args=(1, shared[1]))]
		[t.start() for t in ts]; [t.join(600) for t in ts]
		h5close()
		ctx.case(('2t', rd, len(coll), dt), nontrivial=True)
		ctx.count('two_thread_rounds')
		ctx.count(f'two_thread_shared:{["in-memory array", "array + list", "one open signature file"][rd % 3]}')
		w = dict(n=len(coll), dtype=dt, round=rd, shared=["in-memory array", "array + list", "one open signature file"][rd % 3])
		if errors:
			ctx.violation('raises-under-two-threads', f'bulk call raised when two threads used the library at once: {errors[0]}', w)
			continue
		for tid, outs in results.items():
			for got in outs:
				ctx.evals += 1
				if not cmp_bits(ctx, got, exp, 'cell-bits', f'bulk call while another thread was computing (thread {tid})', w):
					break


def filter_tsan(logs):
	"""DESIGN.md 2.4: a report counts only if both accesses have their innermost gambit frame inside an
	._omp_fn. function and at least one of the two source lines is not a '#pragma omp' line."""
	import re
	from vf import core
	raw, kept, reasons = 0, [], {}
	src_cache = {}

	def src_line(path, ln):
		if path not in src_cache:
			try:
				src_cache[path] = open(path, errors='replace').read().split('\n')
			except OSError:
				src_cache[path] = []
		L = src_cache[path]
		return L[ln - 1] if 0 < ln <= len(L) else ''

	for text in logs:
		for block in re.split(r'={18}\n', text):
			if 'WARNING: ThreadSanitizer: data race' not in block:
				continue
			raw += 1
			# split into the access stacks
			parts = re.split(r'\n\s*\n', block)
			stacks = [p for p in parts if re.search(r'^\s*(Write|Read|Previous write|Previous read|Atomic|Previous atomic)', p.strip(), re.M) and '#0' in p]
			tops = []
			for st in stacks[:2]:
				m = re.search(r'#0\s+(\S+)\s+(\S+?):(\d+)', st)
				if m:
					tops.append((m.group(1), m.group(2), int(m.group(3))))
			if len(tops) < 2:
				reasons['unparsed'] = reasons.get('unparsed', 0) + 1
				continue
			if not all('._omp_fn.' in t[0] for t in tops):
				reasons['frame-outside-omp-region'] = reasons.get('frame-outside-omp-region', 0) + 1
				continue
			if all('#pragma omp' in src_line(t[1], t[2]) for t in tops):
				reasons['both-on-pragma-line'] = reasons.get('both-on-pragma-line', 0) + 1
				continue
			kept.append(block[:1500])
	return raw, kept, reasons


def finalize(merged, tier, seed, inconclusive):
	c = merged['counters']
	for k in CONTAINERS:
		if c.get(f'container:{k}', 0) == 0:
			inconclusive.append(f'container never exercised: {k}')
	for n in ['calls:array', 'calls:matrix', 'calls:pairwise', 'canary_checks', 'repetitions', 'index_kind:repeats', 'chunking:1', 'chunking:>n', 'pairwise:flat', 'pairwise:square', 'wide_queries_beyond_narrow_reference_range', 'siglist_history_steps', 'container:pylist-mixed', 'two_thread_rounds', 'large_collection_calls:threads=16', 'tsan_large_collections', 'bulk_calls_with_several_containers_open']:
		if c.get(n, 0) == 0:
			inconclusive.append(f'class never observed: {n}')
	tc = merged['sets'].get('thread_counts', set())
	if not {1, 16} <= set(tc):
		inconclusive.append(f'thread counts seen: {sorted(tc)}')
	part = merged['sets'].get('omp_threads_participating', set())
	if not part or max(part) < 2:
		inconclusive.append('no parallel region with >= 2 participating OpenMP threads observed')
	st = merged['notes'].setdefault('sanitizer_stage', {})
	ov = merged['notes'].get('overlay_loaded', {})
	if not ov.get('asan') and 'asan-cfg' not in st:
		inconclusive.append('ASan/UBSan overlay was never loaded')
	extra = dict(exhaustive=False, exhaustive_note='chunk_slices is enumerated exhaustively; all other dimensions are seeded samples')
	# ---- TSan stage (filter, DESIGN.md 2.4) ----------------------------------------------------------------
	if ov.get('tsan'):
		raw, kept, reasons = filter_tsan(merged.get('tsan_logs', []))
		extra['tsan'] = dict(raw_reports=raw, filtered_reports=len(kept), discarded_by_reason=reasons, regions=int(c.get('tsan_parallel_regions', 0)))
		for blk in kept[:2]:
			merged['violations'].append(dict(mech='tsan-race-in-omp-region', msg=blk, witness=dict(shard='tsan-cfg'), shard='tsan-cfg'))
		if kept:
			merged['viol_per_mech']['tsan-race-in-omp-region'] += len(kept)
	elif 'tsan-cfg' not in st:
		extra['tsan'] = dict(status='not loaded')
	return extra
