"""Shared pieces for the CLI properties (C08, C16, C17): genome files with hostile names, signature files with
hostile ids, expected labels."""

import os
import random

import numpy as np

from vf.oracles import sigdef as S
from vf.oracles import jaccard as J
from vf.oracles.fasta import write_fasta

FASTA_EXTS = ('.fasta', '.fna', '.ffn', '.faa', '.frn', '.fa')
NAME_STEMS = ['plain', 'with space', 'comma,name', 'dq"uote', "sq'uote", 'ünï', '日本', 'semi;colon', 'paren(1)', 'colon:x', 'dot.in.name', 'trailing.', 'x.fasta.bak', '-dash', 'tab\tname', 'a=b', 'None', 'true', '1e5', '007', 'NaN', 'cafe\u0301', 'sample_\u212b', 'o\u0308\u0323x', '\uff46\uff55\uff4c\uff4c', 'zero\u200dwidth', '\ufb01le']   # the last six: NFD spelling, Angstrom sign, stacked combining marks, full-width letters, zero-width joiner, ligature
ID_POOL = ['cafe\u0301 id', 'caf\u00e9 id', 'id\u212b', 'id plain', 'id, comma', 'id "dq"', "id 'sq'", 'id\nnewline', 'id\ttab', ' id lead', 'ïd', '標本', 'id;semi', 'id(paren)', 'id:colon', '', '#id']


def expected_label(filename: str) -> str:
	"""Statement of C08: name stripped of directory, then one trailing .gz, then one FASTA extension."""
	base = os.path.basename(filename)
	if base.endswith('.gz'):
		base = base[:-3]
	for ext in FASTA_EXTS:
		if base.endswith(ext):
			return base[:-len(ext)]
	return base


def rand_genome(rng, n=None, base=None, rate=None):
	if base is not None:
		b = bytearray(b''.join(base))
		for p in rng.sample(range(len(b)), int(len(b) * rate)):
			b[p] = rng.choice(b'ACGT')
		s = bytes(b)
	else:
		s = bytes(rng.choice(b'ACGT') for _ in range(n or rng.randint(800, 2500)))
	cuts = sorted(rng.sample(range(1, len(s)), rng.choice([0, 0, 1, 2])))
	from vf.oracles.fasta import soft_mask
	return [soft_mask(c) for c in (s[a:b] for a, b in zip([0] + cuts, cuts + [len(s)]))]


class Genomes:
	"""A bunch of genome FASTA files in a directory, with oracle signatures under any parameters."""

	def __init__(self, rng, dirpath, n, hostile_names=True, identical_pairs=True, empty=True, related=True):
		self.rng, self.dir = rng, dirpath
		dirpath.mkdir(parents=True, exist_ok=True)
		self.items = []   # dict(path, contigs, label)
		stems = list(NAME_STEMS)
		rng.shuffle(stems)
		used = set()
		for i in range(n):
			c = rng.random()
			if identical_pairs and self.items and c < 0.15:
				contigs = list(rng.choice(self.items)['contigs'])
			elif related and self.items and c < 0.5:
				contigs = rand_genome(rng, base=rng.choice(self.items)['contigs'], rate=rng.choice([0.01, 0.05, 0.15]))
			elif empty and c < 0.58:
				contigs = [b'C' * 200 + b'G' * 30]      # signature is empty for AT-rich prefixes
			else:
				contigs = rand_genome(rng)
			stem = (stems[i % len(stems)] if hostile_names and rng.random() < 0.7 else 'genome') + f'_{i}'
			ext = rng.choice(['.fasta', '.fa', '.fna', '.fasta.gz', '.fa.gz', '', '.txt', '.gz', '.fasta.fasta', '.FASTA'])
			gz = ext.endswith('.gz') if rng.random() < 0.9 else not ext.endswith('.gz')
			gz = gz and rng.choice([True, True, 'multi'])
			name = stem + ext
			if name in used:
				name = f'u{i}_' + name
			used.add(name)
			p = dirpath / name
			write_fasta(p, contigs, width=rng.choice([0, 60, 70]), eol=rng.choice([b'\n', b'\r\n']), gz=gz)
			self.items.append(dict(path=p, contigs=contigs, label=expected_label(name), name=name))
		self._sig = {}

	def add_collision(self, i):
		"""A DIFFERENT genome whose file yields the same label as item i (same name in another directory, or the same stem with another
		FASTA extension). -> index of the new item."""
		rng = self.rng
		it = self.items[i]
		t = len(self.items)
		if rng.random() < 0.5 or not it['label']:
			rel = f'dup{t}/{it["name"]}'
		else:
			rel = f'dup{t}/{it["label"]}{rng.choice([".fasta", ".fna", ".fa", ".fa.gz"])}'
		p = self.dir / rel
		p.parent.mkdir(parents=True, exist_ok=True)
		contigs = rand_genome(rng) if rng.random() < 0.6 else rand_genome(rng, base=it['contigs'], rate=0.1)
		write_fasta(p, contigs, gz=rel.endswith('.gz'))
		self.items.append(dict(path=p, contigs=contigs, label=expected_label(os.path.basename(rel)), name=rel))
		assert self.items[-1]['label'] == it['label'], (self.items[-1]['label'], it['label'])
		return t

	def add_symlink(self, i):
		"""A symbolic link with a name of its own pointing at the file of item i (the label is derived from the name that was GIVEN).
		-> index of the new item."""
		it = self.items[i]
		t = len(self.items)
		ext = ''.join(c for c in ('.fasta', '.fa', '.fna', '') if it['name'].endswith(c))[:6] or ''
		name = f'link_{t}{self.rng.choice([".fasta", ".fa", ""])}' + ('.gz' if it['name'].endswith('.gz') else '')
		(self.dir / 'store').mkdir(exist_ok=True)
		p = self.dir / name
		os.symlink(it['path'], p)
		self.items.append(dict(path=p, contigs=it['contigs'], label=expected_label(name), name=name))
		return t

	def sig(self, i, k, prefix):
		key = (i, k, prefix)
		if key not in self._sig:
			self._sig[key] = S.signature(k, prefix.upper().encode(), self.items[i]['contigs'])
		return self._sig[key]

	def dist(self, i, j, k, prefix):
		s, u = J.dist_su(set(self.sig(i, k, prefix)), set(self.sig(j, k, prefix)))
		return float(np.uint32(J.expected_bits(s, u)).view('f4'))

	def listfile(self, idxs, name, absolute=False, blank_lines=False):
		p = self.dir.parent / name
		lines = []
		for i in idxs:
			lines.append(str(self.items[i]['path']) if absolute else self.items[i]['name'])
			if blank_lines and self.rng.random() < 0.3:
				lines.append('')
		p.write_text('\n'.join(lines) + ('\n' if self.rng.random() < 0.8 else ''))
		return p

	def sigfile(self, idxs, k, prefix, name, ids=None):
		from gambit.sigs.base import SignatureArray, AnnotatedSignatures, SignaturesMeta, dump_signatures
		from gambit.kmers import KmerSpec
		ks = KmerSpec(k, prefix)
		dt = ks.index_dtype
		path = self.dir.parent / name
		if path.exists():
			os.unlink(path)
		ids = ids if ids is not None else [self.items[i]['label'] for i in idxs]
		dump_signatures(str(path), AnnotatedSignatures(SignatureArray([np.array(self.sig(i, k, prefix), dtype=dt) for i in idxs], ks, dtype=dt), ids, SignaturesMeta(id='x', id_attr='key')))
		return path


def hostile_ids(rng, n):
	pool = list(ID_POOL)
	rng.shuffle(pool)
	return [(pool[i % len(pool)] + (f' {i}' if i >= len(pool) or rng.random() < 0.3 else '')) for i in range(n)]
