"""C14 - signatures built with different k-mer parameters are never compared silently.

Monitor: every command / option combination that brings two signature sources together is run with
mismatching parameters (must exit non-zero and leave no result) and with matching or inferred parameters
(distances must equal the oracle distances under the pre-computed side's / the database's parameters,
never the defaults)."""

import csv
import io
import os
import random

import numpy as np

from vf.oracles import sigdef as S
from vf.oracles import jaccard as J
from vf.oracles.fasta import write_fasta, soft_mask

LEVEL = 'exploration'
RULE = ('cases = (command, option combination, parameter pair); parameter pairs differ in k only, prefix only, both, or only in prefix case '
        '(= equal); commands: query -s, dist with every query channel x reference channel x explicit/inferred -k/-p, signatures create '
        '--db-params, tree -s; non-trivial = every case; distinct = (command line shape, parameter pair) by hash')
ASSUMPTIONS = ['an output file that exists but is empty is not "a result" (click opens -o eagerly)', 'worlds use non-default parameters so a silent fall-back to 11/ATGAC is visible']
REACH = ['gambit.cli.dist:dist_cmd', 'gambit.cli.query:query_cmd', 'gambit.cli.signatures:create', 'gambit.cli.common:kspec_from_params']


def shards(tier, seed):
	n = 6 if tier == 'quick' else 24
	out = [dict(name=f'cmds-{i}', kind='cmds', sub=i, nrounds=2 if tier == 'quick' else 6) for i in range(n)]
	for i in range(2 if tier == 'quick' else 8):
		out.append(dict(name=f'api-parse-{i}', kind='api', sub=i, nrounds=3 if tier == 'quick' else 10))
	return out


def param_pairs(rng):
	"""(A, B, relation) with A the database's / first source's parameters."""
	ks = [5, 6, 7, 8, 9]
	ps = ['AT', 'TA', 'ACG', 'GAT', 'CC']
	k, p = rng.choice(ks), rng.choice(ps)
	out = [((k, p), (rng.choice([x for x in ks if x != k]), p), 'k-differs'),
	       ((k, p), (k, rng.choice([x for x in ps if x != p])), 'prefix-differs'),
	       ((k, p), (rng.choice([x for x in ks if x != k]), rng.choice([x for x in ps if x != p])), 'both-differ'),
	       ((k, p), (k, p + rng.choice('ACGT')), 'prefix-longer'),
	       ((k, p), (k, p.lower()), 'prefix-case-only'),
	       ((k, p), (k, p), 'equal'),
	       ((k, p), (11, 'ATGAC'), 'other-side-is-the-default')]   # explicit options equal to the built-in defaults are still explicit
	# the reverse complement of the prefix is a different prefix (both strands are searched for the SAME prefix; the k-mer sets differ)
	np_ = rng.choice(['ACG', 'GAT', 'CC', 'AC', 'ATGAC'])
	rc = np_[::-1].translate(str.maketrans('ACGT', 'TGCA'))
	out.append(((k, np_), (k, rc), 'prefix-is-reverse-complement'))
	return out


class Env:
	def __init__(self, ctx, rng, tag):
		self.ctx, self.rng, self.dir = ctx, rng, ctx.workdir / tag
		self.dir.mkdir()
		self.genomes = []
		for i in range(5):
			contigs = [soft_mask(bytes(rng.choice(b'ACGT') for _ in range(rng.randint(1500, 3000))))]
			p = self.dir / f'genome{i}.fasta'
			write_fasta(p, contigs)
			self.genomes.append((p, contigs))
		self._n = 0

	def sig(self, i, kp):
		return S.signature(kp[0], kp[1].upper().encode(), self.genomes[i][1])

	def dist(self, i, j, kp):
		s, u = J.dist_su(set(self.sig(i, kp)), set(self.sig(j, kp)))
		return float(np.uint32(J.expected_bits(s, u)).view('f4'))

	def sigfile(self, idxs, kp, name):
		from gambit.sigs.base import SignatureArray, AnnotatedSignatures, SignaturesMeta, dump_signatures
		from gambit.kmers import KmerSpec
		ks = KmerSpec(kp[0], kp[1])
		dt = ks.index_dtype
		path = self.dir / name
		if path.exists():
			os.unlink(path)
		dump_signatures(str(path), AnnotatedSignatures(SignatureArray([np.array(self.sig(i, kp), dtype=dt) for i in idxs], ks, dtype=dt),
		                                                 [f'genome{i}' for i in idxs], SignaturesMeta(id='x', id_attr='key')))
		return path

	def listfile(self, idxs, name):
		p = self.dir / name
		p.write_text(''.join(f'{self.genomes[i][0].name}\n' for i in idxs))
		return p

	def database(self, kp, idxs, name):
		"""A database whose reference genomes are genomes idxs under parameters kp."""
		from vf import world as W
		w = W.World(kp[0], kp[1].upper())
		W.gen_taxonomy(self.rng, w, nt=2, names='plain')
		for j, i in enumerate(idxs):
			W.add_genome(w, self.rng, j, 0, self.sig(i, kp), names_pool=['plain'])
			w.genomes[-1]['key'] = f'genome{i}'
		w.finalize()
		for t in w.taxa:
			t.thr = 0.5
		return w.write_db(self.dir / name), w

	def out(self, ext='csv'):
		self._n += 1
		return self.dir / f'out{self._n}.{ext}'


def run(args):
	from vf import clidrv
	return clidrv.run_inproc(args)


def result_written(path, stdout):
	"""A non-empty output file, or something that looks like a result (CSV header / matrix / JSON / Newick) on stdout.
	An error message printed on stdout is not a result."""
	so = stdout.lstrip()
	looks_like_result = so.startswith(('query,', ',', '{', '[', '(')) and len(so) > 2
	return (path is not None and path.exists() and path.stat().st_size > 0) or looks_like_result


def expect_error(ctx, cls, rel, args, out, w):
	code, so, se, exc = run(args)
	ctx.case(('err', cls, rel, w.get('A'), w.get('B')), nontrivial=True, sample=dict(cls=cls, relation=rel, args=[str(a) for a in args][-10:], exit=code, stderr=se[-160:]) if ctx.evals % 37 == 0 else None)
	ctx.count(f'mismatch:{cls}')
	ctx.count(f'relation:{rel}')
	ww = dict(w, cls=cls, relation=rel, args=[str(a) for a in args], exit=code, stderr=se[-300:], exc=exc)
	if code == 0:
		ctx.violation(f'mismatch-not-refused:{cls}', f'{cls} with {rel} parameters exited 0' + (' and wrote a result' if result_written(out, so) else ''), ww)
	elif result_written(out, so):
		ctx.violation(f'result-written-despite-error:{cls}', f'{cls}: exit {code} but a result was written', ww)
	elif exc is not None and 'ClickException' not in exc:
		ctx.count('refused_by_uncaught_exception')   # still non-zero for the user; recorded
	if code != 0 and not se.strip() and exc is None:
		ctx.count('refused_without_message')


def read_dmat(path):
	rows = list(csv.reader(io.StringIO(open(path, newline='').read(), newline='')))
	return rows[0][1:], [r[0] for r in rows[1:]], [[float(x) for x in r[1:]] for r in rows[1:]]


def expect_ok_dist(ctx, cls, env, args, out, qidx, ridx, kp, w):
	code, so, se, exc = run(args)
	ctx.case(('ok', cls, kp, qidx, ridx), nontrivial=True)
	ctx.count(f'control:{cls}')
	ww = dict(w, cls=cls, args=[str(a) for a in args], exit=code, stderr=se[-300:], exc=exc, params_expected=list(kp))
	if code != 0:
		ctx.violation(f'matching-parameters-refused:{cls}', f'{cls} with matching / inferred parameters exited {code}: {se[-150:]} {exc}', ww)
		return
	cols, rows, M = read_dmat(out)
	for a, qi in enumerate(qidx):
		for b, ri in enumerate(ridx):
			d = env.dist(qi, ri, kp)
			ctx.evals += 1
			if abs(M[a][b] - d) > 0.5e-4 + 1e-9:
				dflt = env.dist(qi, ri, (11, 'ATGAC'))
				hint = ' (= the distance under the DEFAULT parameters 11/ATGAC)' if abs(M[a][b] - dflt) <= 0.5e-4 + 1e-9 else ''
				ctx.violation(f'sides-use-different-parameters:{cls}', f'{cls}: cell ({a},{b}) = {M[a][b]} but the distance under {kp} is {d!r}{hint}', ww)
				return


def kopts(kp):
	return ['-k', kp[0], '-p', kp[1]]


def run_api(sh, ctx):
	"""Library entry point for file queries (src/gambit/query.py query_parse): a history of calls in one process against databases
	with different k-mer parameters, the caller re-using its own option dict / params object between calls."""
	rng = random.Random(f'C14-api-{ctx.seed}-{sh["sub"]}')
	from gambit.db import ReferenceDatabase
	from gambit.query import query_parse, QueryParams
	from gambit.seq import SequenceFile
	for rnd in range(sh['nrounds']):
		env = Env(ctx, rng, f'a{rnd}')
		ks, ps = [5, 6, 7, 8, 9], ['AT', 'TA', 'ACG', 'GAT', 'CC']
		specs = []
		while len(specs) < 3:
			kp = (rng.choice(ks), rng.choice(ps))
			if kp not in specs:
				specs.append(kp)
		Q, R = [0, 1], [2, 3, 4]
		dbs = []
		for j, kp in enumerate(specs):
			d, _w = env.database(kp, R, f'dbapi{j}')
			dbs.append((kp, ReferenceDatabase.load_from_dir(d)))
		files = [SequenceFile(env.genomes[i][0], 'fasta') for i in Q]
		shared_kw = rng.choice([dict(), dict(concurrency=None), dict(concurrency='threads', max_workers=2)])
		shared_params = QueryParams(report_closest=3)
		try:
			for step in range(8):
				kp, db = dbs[rng.randrange(len(dbs))] if step else dbs[0]
				style = rng.choice(['shared-dict', 'shared-dict', 'fresh-dict', 'none'])
				kw = dict(parse_kw=shared_kw) if style == 'shared-dict' else (dict(parse_kw=dict(concurrency=None)) if style == 'fresh-dict' else {})
				w = dict(step=step, database_params=list(kp), all_database_params=[list(s) for s in specs], parse_kw_style=style, parse_kw_initial=repr(sorted(k for k in shared_kw if k != 'progress')))
				ctx.case(('api-parse', rnd, step, kp, style), nontrivial=True, sample=w if step == 1 and rnd == 0 else None)
				ctx.count(f'api_parse_calls:{style}')
				if step and kp != last:
					ctx.count('api_parse_database_switches')
				last = kp
				try:
					res = query_parse(db, files, shared_params, progress=None, **kw)
				except Exception as e:
					ctx.violation('matching-parameters-refused:query_parse', f'query_parse raised {type(e).__name__}: {e}', w)
					continue
				for qi, item in zip(Q, res.items):
					ctx.evals += 1
					dmin = min(env.dist(qi, ri, kp) for ri in R)
					got = float(item.classifier_result.closest_match.distance)
					if got != dmin:
						others = [s for s in specs if s != kp and min(env.dist(qi, ri, s) for ri in R) == got]
						ctx.violation('sides-use-different-parameters:query_parse', f'query_parse call #{step} on the database with {kp}: closest distance {got!r}, under the database\'s parameters it is {dmin!r}' + (f' (query genomes were parsed with {others[0]}?)' if others else ''), w)
						break
		finally:
			for _kp, db in dbs:
				db.signatures.close(); db.session.close()


def run_shard(sh, ctx):
	if sh['kind'] == 'api':
		return run_api(sh, ctx)
	rng = random.Random(f'C14-{ctx.seed}-{sh["sub"]}')
	from gambit.sigs.base import load_signatures
	for rnd in range(sh['nrounds']):
		env = Env(ctx, rng, f'r{rnd}')
		for A, B, rel in param_pairs(rng):
			mism = rel not in ('equal', 'prefix-case-only')
			w = dict(A=list(A), B=list(B))
			Q, R = [0, 1], [2, 3, 4]
			qA, rA = env.sigfile(Q, A, 'qA.gs'), env.sigfile(R, A, 'rA.gs')
			qB, rB = env.sigfile(Q, B, 'qB.gs'), env.sigfile(R, B, 'rB.gs')
			dbA, wA = env.database(A, R, f'db_{rel}')
			qfiles = [env.genomes[i][0] for i in Q]
			rfiles = [env.genomes[i][0] for i in R]
			ql, rl = env.listfile(Q, 'ql.txt'), env.listfile(R, 'rl.txt')
			qopts = dict(files=sum([['-q', f] for f in qfiles], []), listfile=['--ql', ql, '--qdir', env.dir])
			ropts = dict(files=sum([['-r', f] for f in rfiles], []), listfile=['--rl', rl, '--rdir', env.dir])
			Aeff = (A[0], A[1].upper())
			if mism:
				# 1. query -s B on database A
				o = env.out()
				expect_error(ctx, 'query -s', rel, ['-d', dbA, 'query', '-o', o, '--no-progress', '-s', qB], o, w)
				for fmt in ('json', 'archive'):
					o = env.out(fmt)
					expect_error(ctx, f'query -s -f {fmt}', rel, ['-d', dbA, 'query', '-f', fmt, '-o', o, '--no-progress', '-s', qB], o, w)
				o = env.out()
				expect_error(ctx, 'query -s --strict', rel, ['-d', dbA, 'query', '--strict', '-o', o, '--no-progress', '-s', qB], o, w)
				# 2. dist --qs A --rs B (and swapped)
				o = env.out(); expect_error(ctx, 'dist --qs --rs', rel, ['dist', '-o', o, '--no-progress', '--qs', qA, '--rs', rB], o, w)
				o = env.out(); expect_error(ctx, 'dist --qs --rs', rel, ['dist', '-o', o, '--no-progress', '--qs', qB, '--rs', rA], o, w)
				# 3. dist --qs B --use-db (db A)
				o = env.out(); expect_error(ctx, 'dist --qs --use-db', rel, ['-d', dbA, 'dist', '-o', o, '--no-progress', '--qs', qB, '--use-db'], o, w)
				# 4. dist -k/-p A with --qs B and each reference channel
				for rn, ro in list(ropts.items()) + [('rs', ['--rs', rA]), ('square', ['--square'])]:
					o = env.out(); expect_error(ctx, f'dist -k/-p + --qs / ref {rn}', rel, ['dist', '-o', o, '--no-progress'] + kopts(A) + ['--qs', qB] + ro, o, w)
				o = env.out(); expect_error(ctx, 'dist -k/-p + --qs / ref use-db', rel, ['-d', dbA, 'dist', '-o', o, '--no-progress'] + kopts(A) + ['--qs', qB, '--use-db'], o, w)
				# 4b. explicit -k/-p agree with ONE pre-computed side but the other pre-computed side differs
				o = env.out(); expect_error(ctx, 'dist -k/-p == --qs, --rs differs', rel, ['dist', '-o', o, '--no-progress'] + kopts(A) + ['--qs', qA, '--rs', rB], o, w)
				o = env.out(); expect_error(ctx, 'dist -k/-p == --rs, --qs differs', rel, ['dist', '-o', o, '--no-progress'] + kopts(A) + ['--qs', qB, '--rs', rA], o, w)
				o = env.out(); expect_error(ctx, 'dist -k/-p == --qs, --use-db differs', rel, ['-d', dbA, 'dist', '-o', o, '--no-progress'] + kopts(B) + ['--qs', qB, '--use-db'], o, w)
				o = env.out(); expect_error(ctx, 'dist -k/-p == --use-db, --qs differs', rel, ['-d', dbA, 'dist', '-o', o, '--no-progress'] + kopts(A) + ['--qs', qB, '--use-db'], o, w)
				# 5. dist -k/-p A --rs B with each query channel; -k/-p B with --use-db A
				for qn, qo in qopts.items():
					o = env.out(); expect_error(ctx, f'dist -k/-p + --rs / query {qn}', rel, ['dist', '-o', o, '--no-progress'] + kopts(A) + qo + ['--rs', rB], o, w)
					o = env.out(); expect_error(ctx, f'dist -k/-p + --use-db / query {qn}', rel, ['-d', dbA, 'dist', '-o', o, '--no-progress'] + kopts(B) + qo + ['--use-db'], o, w)
				# 5b. the SAME genomes (identical identifier lists, same order) processed under the two parameter sets: one file as queries, the
				# other as references, and a database of those genomes
				dbQA, _ = env.database(A, Q, f'dbq_{rel}')
				o = env.out(); expect_error(ctx, 'dist --qs --rs, same genome ids in both files', rel, ['dist', '-o', o, '--no-progress', '--qs', qA, '--rs', qB], o, w)
				o = env.out(); expect_error(ctx, 'dist -k/-p == --qs, --rs differs, same genome ids in both files', rel, ['dist', '-o', o, '--no-progress'] + kopts(A) + ['--qs', qA, '--rs', qB], o, w)
				o = env.out(); expect_error(ctx, 'dist --qs --use-db, same genome ids in both', rel, ['-d', dbQA, 'dist', '-o', o, '--no-progress', '--qs', qB, '--use-db'], o, w)
			# 6. -k without -p and vice versa; 7. --db-params with -k/-p
			if rel == 'equal':
				o = env.out(); expect_error(ctx, 'dist -k without -p', 'incomplete', ['dist', '-o', o, '--no-progress', '-k', A[0]] + qopts['files'] + ropts['files'], o, w)
				o = env.out(); expect_error(ctx, 'dist -p without -k', 'incomplete', ['dist', '-o', o, '--no-progress', '-p', A[1]] + qopts['files'] + ropts['files'], o, w)
				o = env.out('gs'); expect_error(ctx, 'signatures create --db-params + -k/-p', 'exclusive', ['-d', dbA, 'signatures', 'create', '-o', o, '--no-progress', '--db-params'] + kopts(A) + qfiles, o, w)
				o = env.out('gs'); expect_error(ctx, 'signatures create -k without -p', 'incomplete', ['signatures', 'create', '-o', o, '--no-progress', '-k', A[0]] + qfiles, o, w)
				# explicit options whose VALUE is zero / empty are still explicit: they match no signature file, and half a pair is still half a pair
				for cls_, opts in (('dist -k 0 -p "" + --qs --rs', ['-k', 0, '-p', '']), ('dist -k 0 alone + --qs --rs', ['-k', 0]), ('dist -p "" alone + --qs --rs', ['-p', ''])):
					o = env.out(); expect_error(ctx, cls_, 'explicit-but-falsy', ['dist', '-o', o, '--no-progress'] + opts + ['--qs', qA, '--rs', rA], o, w)
					o = env.out(); expect_error(ctx, cls_.replace('--rs', '--use-db'), 'explicit-but-falsy', ['-d', dbA, 'dist', '-o', o, '--no-progress'] + opts + ['--qs', qA, '--use-db'], o, w)
				o = env.out('gs'); expect_error(ctx, 'signatures create -k 0 -p ""', 'explicit-but-falsy', ['signatures', 'create', '-o', o, '--no-progress', '-k', 0, '-p', ''] + qfiles, o, w)
			# ---- positive controls: every combination with matching or inferred parameters -------------------------
			if not mism:
				Bq, Br = qB, rB      # B equals A (possibly different prefix case)
				o = env.out(); expect_ok_dist(ctx, 'dist --qs --rs', env, ['dist', '-o', o, '--no-progress', '--qs', qA, '--rs', Br], o, Q, R, Aeff, w)
				o = env.out(); expect_ok_dist(ctx, 'dist --qs --use-db', env, ['-d', dbA, 'dist', '-o', o, '--no-progress', '--qs', Bq, '--use-db'], o, Q, R, Aeff, w)
				o = env.out(); expect_ok_dist(ctx, 'dist --qs --rs, same genome ids in both files', env, ['dist', '-o', o, '--no-progress', '--qs', qA, '--rs', Bq], o, Q, Q, Aeff, w)
				o = env.out(); expect_ok_dist(ctx, 'dist -k/-p --qs --rs', env, ['dist', '-o', o, '--no-progress'] + kopts(B) + ['--qs', qA, '--rs', rA], o, Q, R, Aeff, w)
				for rn, ro in ropts.items():
					o = env.out(); expect_ok_dist(ctx, f'dist --qs + ref {rn} (inferred)', env, ['dist', '-o', o, '--no-progress', '--qs', qA] + ro, o, Q, R, Aeff, w)
					o = env.out(); expect_ok_dist(ctx, f'dist -k/-p --qs + ref {rn}', env, ['dist', '-o', o, '--no-progress'] + kopts(A) + ['--qs', qA] + ro, o, Q, R, Aeff, w)
				o = env.out(); expect_ok_dist(ctx, 'dist --qs --square (inferred)', env, ['dist', '-o', o, '--no-progress', '--qs', qA, '--square'], o, Q, Q, Aeff, w)
				for qn, qo in qopts.items():
					o = env.out(); expect_ok_dist(ctx, f'dist query {qn} + --rs (inferred)', env, ['dist', '-o', o, '--no-progress'] + qo + ['--rs', rA], o, Q, R, Aeff, w)
					o = env.out(); expect_ok_dist(ctx, f'dist query {qn} + --use-db (inferred)', env, ['-d', dbA, 'dist', '-o', o, '--no-progress'] + qo + ['--use-db'], o, Q, R, Aeff, w)
					o = env.out(); expect_ok_dist(ctx, f'dist -k/-p query {qn} + ref files', env, ['dist', '-o', o, '--no-progress'] + kopts(A) + qo + ropts['files'], o, Q, R, Aeff, w)
					o = env.out(); expect_ok_dist(ctx, f'dist query {qn} + ref files (defaults)', env, ['dist', '-o', o, '--no-progress'] + qo + ropts['listfile'], o, Q, R, (11, 'ATGAC'), w)
					o = env.out(); expect_ok_dist(ctx, f'dist -k/-p query {qn} --square', env, ['dist', '-o', o, '--no-progress'] + kopts(A) + qo + ['--square'], o, Q, Q, Aeff, w)
				# query with files uses the database's parameters: closest distance must be the oracle distance under A
				o = env.out()
				code, so, se, exc = run(['-d', dbA, 'query', '-o', o, '--no-progress'] + qfiles)
				ctx.count('control:query files')
				ctx.case(('ok', 'query files', A), nontrivial=True)
				if code != 0:
					ctx.violation('matching-parameters-refused:query files', f'query with genome files exited {code}: {se[-150:]} {exc}', w)
				else:
					rows = list(csv.DictReader(io.StringIO(open(o, newline='').read(), newline='')))
					for qi, row in zip(Q, rows):
						dmin = min(env.dist(qi, ri, Aeff) for ri in R)
						if float(np.float32(row['closest.distance'])) != dmin:
							ctx.violation('sides-use-different-parameters:query files', f'query: closest.distance {row["closest.distance"]} but under the database parameters {Aeff} the minimum is {dmin!r}', w)
				# query -s with equal parameters
				o = env.out()
				code, so, se, exc = run(['-d', dbA, 'query', '-o', o, '--no-progress', '-s', Bq])
				ctx.count('control:query -s'); ctx.case(('ok', 'query -s', A, rel), nontrivial=True)
				if code != 0:
					ctx.violation('matching-parameters-refused:query -s', f'query -s with {rel} parameters exited {code}: {se[-150:]} {exc}', w)
				# signatures create --db-params carries the database's parameters
				o = env.out('gs')
				code, so, se, exc = run(['-d', dbA, 'signatures', 'create', '-o', o, '--no-progress', '--db-params'] + qfiles)
				ctx.count('control:signatures create --db-params'); ctx.case(('ok', 'create --db-params', A), nontrivial=True)
				if code != 0:
					ctx.violation('matching-parameters-refused:create --db-params', f'exited {code}: {se[-150:]} {exc}', w)
				else:
					h = load_signatures(str(o))
					try:
						if (h.kmerspec.k, h.kmerspec.prefix_str) != Aeff or any(h[a].tolist() != env.sig(qi, Aeff) for a, qi in enumerate(Q)):
							ctx.violation('sides-use-different-parameters:create --db-params', f'file has {h.kmerspec} / signatures differ; database has {Aeff}', w)
					finally:
						h.close()
				# tree -s
				code, so, se, exc = run(['tree', '--no-progress', '-s', qA])
				ctx.count('control:tree -s'); ctx.case(('ok', 'tree -s', A), nontrivial=True)
				if code != 0 or '(' not in so:
					ctx.violation('matching-parameters-refused:tree -s', f'tree -s exited {code}', w)


def finalize(merged, tier, seed, inconclusive):
	c = merged['counters']
	need = ['mismatch:dist --qs --rs, same genome ids in both files', 'control:dist --qs --rs, same genome ids in both files', 'mismatch:query -s', 'mismatch:dist -k/-p == --qs, --rs differs', 'mismatch:dist -k/-p == --qs, --use-db differs', 'mismatch:dist --qs --rs', 'mismatch:dist --qs --use-db', 'mismatch:dist -k/-p + --qs / ref files', 'mismatch:dist -k/-p + --rs / query listfile',
	        'mismatch:dist -k without -p', 'mismatch:signatures create --db-params + -k/-p', 'relation:k-differs', 'relation:prefix-differs', 'relation:both-differ', 'relation:other-side-is-the-default', 'relation:prefix-is-reverse-complement', 'relation:explicit-but-falsy',
	        'control:dist --qs --rs', 'control:dist query files + --use-db (inferred)', 'control:query files', 'control:signatures create --db-params', 'control:tree -s', 'api_parse_calls:shared-dict', 'api_parse_database_switches']
	for n in need:
		if c.get(n, 0) == 0:
			inconclusive.append(f'class never observed: {n}')
	return dict(exhaustive=False, command_shapes=sorted(k.split(':', 1)[1] for k in c if k.startswith(('mismatch:', 'control:'))))
