"""C06 - a genome's signature depends only on its biological content.

Monitor: every file layout of the same genome must give (a) the union of the per-contig signatures
of the reference definition (absolute oracle; rules out k-mers across contig boundaries) and therefore
(b) the same array for all variants (metamorphic). Open file descriptors are counted around calls."""

import os
import random
import itertools

import numpy as np

from vf.oracles import sigdef as S
from vf.oracles.fasta import write_fasta

LEVEL = 'exploration'
RULE = ('cases = (genome of 1..8 contigs, per-contig orientation, contig order, case pattern, line width, line ending, final newline, '
        'gzip, file extension, compression argument); contigs are built so that a k-mer across a contig boundary would exist if '
        'contigs were concatenated; non-trivial = expected signature non-empty; distinct = (genome, variant) by hash')
ASSUMPTIONS = ['oracle = union over contigs of vf/oracles/sigdef.py', 'FASTA files are well formed (header line per contig)']
REACH = ['gambit.sigs.calc:calc_file_signature', 'gambit.seq:SequenceFile.parse', 'gambit.util.io:_open_auto', 'gambit.util.io:guess_compression',
         'gambit.util.io:open_compressed', 'gambit.util.io:ClosingIterator.close']
WIDTHS = [1, 2, 3, 7, 59, 60, 61, 80, 0]
EXTS = ['.fasta', '.fa', '.fna.gz', '.gz', '.txt', '', '.fasta.gz', '.fna']


def shards(tier, seed):
	n = 16 if tier == 'quick' else 48
	out = [dict(name=f'var-{i}', kind='var', sub=i, ngenomes=20 if tier == 'quick' else 80, nvar=50 if tier == 'quick' else 120) for i in range(n)]
	out.append(dict(name='orient-exh', kind='orient', ngenomes=6 if tier == 'quick' else 40))
	out.append(dict(name='chromosome', kind='chrom', specs=[(11, 'ATGAC'), (6, 'AT')] if tier == 'quick' else [(11, 'ATGAC'), (6, 'AT'), (16, 'ACG'), (4, 'GATC')], top=21 if tier == 'quick' else 22, nvar=5 if tier == 'quick' else 16))
	out.append(dict(name='run-directories', kind='dirs', runs=1 if tier == 'quick' else 6, layout=True))
	out.append(dict(name='cli', kind='cli', ngenomes=3 if tier == 'quick' else 15))
	out.append(dict(name='asan-var', kind='var', sub=900, ngenomes=4 if tier == 'quick' else 20, nvar=12, sanitizer='asan'))
	return out


def gen_genome(rng, k, prefix: bytes):
	"""list of contig byte strings (upper case), with boundary traps."""
	P = prefix
	rcP = S.revcomp(P)
	nc = rng.choice([1, 2, 2, 3, 4, 5, 8])
	contigs = []
	for i in range(nc):
		lc = rng.random()
		if lc < 0.1:
			n = rng.choice([0, 1, len(P) + k - 1, len(P) + k, max(k - 1, 1), max(k - 2, 1), k // 2 + 1, len(P)])   # incl. shorter than k, shorter than prefix+k
		elif lc < 0.8:
			n = rng.randint(30, 400)
		elif lc < 0.996:
			n = rng.randint(400, 5000)
		else:
			n = rng.randint(40_000, 90_000)    # a long contig (read / parse buffers, many matches)
		alpha = rng.choice([b'ACGT', b'ACGT', b'ACGTN', b'ACGTRYKMSWN'])
		s = bytearray(rng.choice(alpha) for _ in range(n))
		if rng.random() < 0.3 and n > 20:
			a = rng.randrange(n - 10); s[a:a + rng.randint(1, 10)] = b'N' * 10
		# traps: contig ends with the prefix (so that the next contig's start would complete a k-mer if concatenated)
		if n >= len(P) and rng.random() < 0.6:
			s[n - len(P):] = P
		if n >= len(P) and rng.random() < 0.4:
			s[:len(P)] = rcP if rng.random() < 0.6 else P   # prefix (either strand) flush with the contig start
		if n >= len(P) + k and rng.random() < 0.3:
			s[n - len(P) - k:n - k] = P  # match flush with the end
		contigs.append(bytes(s[:n]))
	return contigs


def rand_case(rng, seq: bytes, mode):
	if mode == 'upper':
		return seq
	if mode == 'lower':
		return seq.lower()
	return bytes(x + 32 if (65 <= x <= 90 and rng.random() < 0.5) else x for x in seq)


def variant(rng, contigs):
	"""-> (contigs', layout dict)"""
	nc = len(contigs)
	orient = [rng.random() < 0.5 for _ in range(nc)]
	order = list(range(nc)); rng.shuffle(order)
	case = rng.choice(['upper', 'lower', 'mixed'])
	cs = [rand_case(rng, S.revcomp(contigs[i]) if orient[i] else contigs[i], case) for i in order]
	lay = dict(orient=orient, order=order, case=case, width=rng.choice(WIDTHS), eol=rng.choice(['\n', '\r\n']), final_newline=rng.random() < 0.7,
	           gz=rng.choice([False, False, True, True, 'multi']), ext=rng.choice(EXTS), compression=None)
	lay['compression'] = rng.choice(['auto', 'auto', 'explicit'])
	return cs, lay


def compute(ctx, ks, path, lay):
	from gambit.seq import SequenceFile
	from gambit.sigs.calc import calc_file_signature
	comp = 'auto' if lay['compression'] == 'auto' else ('gzip' if lay['gz'] else None)
	return calc_file_signature(ks, SequenceFile(path, 'fasta', comp))


def nfds():
	return len(os.listdir('/proc/self/fd'))


def check_variant(ctx, ks, k, prefix, contigs, exp, cs, lay, gid, vid, base_sig=None):
	path = ctx.workdir / f'g{gid}v{vid}{lay["ext"]}'
	write_fasta(path, cs, width=lay['width'], eol=lay['eol'].encode(), final_newline=lay['final_newline'], gz=lay['gz'])
	w = dict(k=k, prefix=prefix.decode(), layout=lay, ncontigs=len(contigs), contig_lengths=[len(c) for c in contigs], contigs=[c.decode('latin-1')[:120] for c in contigs][:4])
	fd0 = nfds()
	try:
		got = compute(ctx, ks, path, lay)
	except Exception as e:
		ctx.violation('raises', f'calc_file_signature raised {type(e).__name__}: {e}', w)
		return None
	finally:
		pass
	fd1 = nfds()
	if fd1 > fd0:
		ctx.count('fd_leaks')
		ctx.notes['fd_leak_example'] = dict(layout=lay, before=fd0, after=fd1)
	ctx.case(('v', k, prefix.decode(), [c.hex() for c in cs][:8], sorted(lay.items(), key=str)), nontrivial=len(exp) > 0,
	         sample=dict(k=k, prefix=prefix.decode(), contig_lengths=[len(c) for c in contigs], layout=lay, expected_signature_len=len(exp)) if vid == 0 and gid < 2 else None)
	ctx.count(f'width:{lay["width"]}'); ctx.count(f'eol:{"CRLF" if lay["eol"] == chr(13) + chr(10) else "LF"}'); ctx.count(f'gz:{lay["gz"]}/ext:{lay["ext"] or "none"}'); ctx.count(f'gz:{lay["gz"]}')
	ctx.count(f'case:{lay["case"]}'); ctx.count(f'compression_arg:{lay["compression"]}')
	if bool(lay['gz']) != lay['ext'].endswith('.gz'):
		ctx.count('extension_disagrees_with_content')
	if not isinstance(got, np.ndarray) or got.dtype != np.dtype(S.dtype_for(k)) or got.tolist() != exp:
		gl = got.tolist() if isinstance(got, np.ndarray) else got
		extra = sorted(set(gl) - set(exp))[:5] if isinstance(gl, list) else None
		missing = sorted(set(exp) - set(gl))[:5] if isinstance(gl, list) else None
		ctx.violation('file-signature-mismatch', f'signature differs from union of per-contig signatures: extra={extra} missing={missing} (got {len(gl) if isinstance(gl, list) else gl}, expected {len(exp)})', w)
	try:
		os.unlink(path)
	except OSError:
		pass
	return got


def run_shard(sh, ctx):
	from gambit.kmers import KmerSpec
	rng = random.Random(f'C06-{ctx.seed}-{sh.get("sub", sh["name"])}')
	if sh['kind'] == 'cli':
		return run_cli(sh, ctx, rng)
	if sh['kind'] == 'dirs':
		# multi-record files (wrapped, CRLF, gzip, multi-member gzip, soft-masked) named by relative paths in one run directory after
		# another, same names, other genomes: each file's signature is the union over ITS contigs in every execution mode (shared with C13)
		from vf.props import c13
		return c13.run_chdir(sh, ctx)
	if sh['kind'] == 'chrom':
		# a genome with one chromosome-sized contig (occurrences planted around every power-of-two position and every multiple of
		# 2^20, on either strand) and two small ones: content-equivalent files - reverse-complemented, reordered, re-cased, re-wrapped,
		# compressed - must all give the signature of the reference definition
		from vf.props import _blocks
		for g, (k, pf) in enumerate(sh['specs']):
			prefix = pf.encode()
			ks = KmerSpec(k, prefix)
			tl = k + len(prefix)
			offs = {}
			big, planted = _blocks.block_sequence(rng, k, prefix, sh['top'], lambda bi: offs.setdefault(bi, rng.randint(-tl - 2, 2)))
			contigs = [big, bytes(rng.choice(b'ACGT') for _ in range(300)), prefix + bytes(rng.choice(b'ACGT') for _ in range(k))]
			exp = S.signature(k, prefix, contigs)
			ctx.count('chromosome_sized_contigs'); ctx.count('block_boundary_occurrences_planted', planted)
			for v in range(sh['nvar']):
				cs, lay = variant(rng, contigs)
				if v == 0:
					lay.update(orient=[False] * 3, order=[0, 1, 2], case='upper'); cs = list(contigs)
				elif v == 1:
					lay.update(orient=[True, False, False], order=[0, 1, 2], case='upper'); cs = [S.revcomp(contigs[0]), contigs[1], contigs[2]]
				check_variant(ctx, ks, k, prefix, [c[:200] for c in contigs], exp, cs, lay, 9000 + g, v)
			# a highly fragmented assembly: hundreds of short contigs of different lengths, far more than 64 KiB in total, most of them
			# with an occurrence flush with one of their ends (whatever is buffered or pooled between contigs gets re-used many times)
			frag = []
			while sum(len(c) for c in frag) < 200_000:
				frag += [c for c in gen_genome(rng, k, prefix) if len(c) < 3000]
			expf = S.signature(k, prefix, frag)
			ctx.count('fragmented_assemblies')
			for v in range(3):
				cs, lay = variant(rng, frag)
				if v == 0:
					lay.update(orient=[False] * len(frag), order=list(range(len(frag))), case='upper'); cs = list(frag)
				check_variant(ctx, ks, k, prefix, [c[:60] for c in frag[:8]], expf, cs, lay, 9500 + g, v)
		return
	for g in range(sh['ngenomes']):
		k = rng.choice([3, 4, 5, 6, 8, 11, 12, 16])
		prefix = rng.choice([b'AT', b'AC', b'ATG', b'GATC', b'A', b'CG', b'TTA'])
		ks = KmerSpec(k, prefix)
		contigs = gen_genome(rng, k, prefix)
		exp = S.signature(k, prefix, contigs)
		concat = S.signature(k, prefix, [b''.join(contigs)])
		if concat != exp:
			ctx.count('genomes_where_concatenation_would_differ')
		if sh['kind'] == 'orient':
			nc = len(contigs)
			if nc > 4:
				contigs = contigs[:4]; nc = 4
				exp = S.signature(k, prefix, contigs)
			ctx.notes['exhaustive_scopes'] = ['all 2^c orientations x all c! contig orders for c<=4 (per genome of the orient shard)']
			vid = 0
			for orient in itertools.product([False, True], repeat=nc):
				for order in itertools.permutations(range(nc)):
					cs = [S.revcomp(contigs[i]) if orient[i] else contigs[i] for i in order]
					lay = dict(orient=list(orient), order=list(order), case='upper', width=60, eol='\n', final_newline=True, gz=False, ext='.fasta', compression='auto')
					check_variant(ctx, ks, k, prefix, contigs, exp, cs, lay, g, vid)
					vid += 1
			ctx.count('orientation_order_exhaustive_genomes')
			continue
		for v in range(sh['nvar']):
			if v % 9 == 4:
				# history: a file that fails part-way through parsing (records before the break were already searched), caught by the caller
				import gzip as _gz
				from gambit.seq import SequenceFile
				from gambit.sigs.calc import calc_file_signature
				body = b''.join(b'>x%d\n' % j + prefix * 3 + bytes(rng.choice(b'ACGT') for _ in range(200)) + b'\n' for j in range(80))
				data = _gz.compress(body)
				bp = ctx.workdir / f'broken{g}_{v}.fa.gz'
				bp.write_bytes(data[:len(data) // 2] if v % 2 else body[:3000] + bytes([0xff, 0xfe]) * 20)
				try:
					calc_file_signature(ks, SequenceFile(bp, 'fasta', 'auto'))
					ctx.count('broken_files_accepted')
				except Exception as e:
					ctx.count('broken_files_raised')
				bp.unlink()
			cs, lay = variant(rng, contigs)
			check_variant(ctx, ks, k, prefix, contigs, exp, cs, lay, g, v)


def run_cli(sh, ctx, rng):
	"""`gambit signatures create` on variants of the same genome; the stored signatures must all equal the oracle."""
	from vf import clidrv
	from gambit.sigs.base import load_signatures
	for g in range(sh['ngenomes']):
		k = rng.choice([5, 6, 8, 11])
		prefix = rng.choice([b'AT', b'ATG', b'GATC'])
		contigs = gen_genome(rng, k, prefix)
		exp = S.signature(k, prefix, contigs)
		paths, lays = [], []
		for v in range(6):
			cs, lay = variant(rng, contigs)
			p = ctx.workdir / f'cli{g}_{v}{lay["ext"]}'
			write_fasta(p, cs, width=lay['width'], eol=lay['eol'].encode(), final_newline=lay['final_newline'], gz=lay['gz'])
			paths.append(p); lays.append(lay)
		out = ctx.workdir / f'cli{g}.gs'
		cores = rng.choice([None, 1, 3])
		args = ['signatures', 'create', '-k', k, '-p', prefix.decode(), '-o', out, '--no-progress'] + (['-c', cores] if cores else []) + paths
		code, so, se, exc = clidrv.run_inproc(args)
		w = dict(k=k, prefix=prefix.decode(), layouts=lays, args=[str(a) for a in args], stderr=se[-300:], exc=exc)
		ctx.case(('cli', g, k, prefix.decode(), [c.hex()[:40] for c in contigs]), nontrivial=len(exp) > 0)
		ctx.count('cli_commands')
		if code != 0:
			ctx.violation('cli-fails', f'signatures create exited {code}: {se[-200:]} {exc}', w)
			continue
		h = load_signatures(str(out))
		try:
			for v in range(len(paths)):
				got = h[v]
				ctx.evals += 1
				if got.tolist() != exp or got.dtype != np.dtype(S.dtype_for(k)):
					ctx.violation('file-signature-mismatch', f'CLI signature {v} differs from the oracle', dict(w, layout=lays[v]))
		finally:
			h.close()


def finalize(merged, tier, seed, inconclusive):
	c = merged['counters']
	need = ['width:1', 'width:0', 'width:61', 'eol:CRLF', 'eol:LF', 'case:mixed', 'case:lower', 'compression_arg:explicit', 'extension_disagrees_with_content',
	        'genomes_where_concatenation_would_differ', 'orientation_order_exhaustive_genomes', 'cli_commands', 'broken_files_raised', 'gz:multi', 'chromosome_sized_contigs', 'fragmented_assemblies', 'relative_paths_after_chdir:processes@third']
	for n in need:
		if c.get(n, 0) == 0:
			inconclusive.append(f'class never observed: {n}')
	merged['notes'].setdefault('sanitizer_stage', {})
	if not merged['notes'].get('overlay_loaded', {}).get('asan') and not merged['notes']['sanitizer_stage']:
		inconclusive.append('ASan/UBSan overlay was never loaded')
	return dict(exhaustive=False, fd_leaks_observed=int(c.get('fd_leaks', 0)))
