"""C09 - the closest-genomes list is the deterministic (distance, reference order) prefix.

Monitor: every QueryResultItem produced by the real query() (and the CLI's csv/json of the same query) is
compared with sorted(range(n), key=(float32 distance, position in db.genomes)) computed from exact set
distances; each configuration runs in fresh processes under several NumPy CPU-dispatch settings, thread
counts and chunk sizes, and digests of the lists are compared across all of them."""

import csv
import io
import json
import random

from vf import core

import numpy as np

from vf.oracles import taxonomy as TX
from vf.oracles import jaccard as J

LEVEL = 'exploration'
RULE = ('cases = (database with tie-heavy distances, query, list length N, chunk size, OpenMP threads, NumPy CPU-dispatch setting); '
        'n = 1..500 references (sorting-network, insertion-sort and large regimes), N in {1,2,10,n,n+5}; identical digests are demanded '
        'across 4 dispatch settings x thread counts x chunk sizes; non-trivial = the distance row has a tie; distinct = (world, query, N) by hash')
ASSUMPTIONS = ['"CPU instruction sets" range over the subsets of this CPU\'s features that NPY_DISABLE_CPU_FEATURES can switch off',
               'distances are exact set distances rounded once (C02 oracle); ties are therefore exact ties']
REACH = ['gambit.query:get_result_item', 'gambit.query:query', 'gambit.classify:classify']

AVX512 = 'AVX512F AVX512CD AVX512_SKX AVX512_CLX AVX512_CNL AVX512_ICL'
DISPATCH = {
	'default': '',
	'no-avx512': AVX512,
	'no-avx512-avx2': AVX512 + ' AVX2 FMA3',
	'baseline-only': AVX512 + ' AVX2 FMA3 SSSE3 SSE41 POPCNT SSE42 AVX F16C',
}


def available_dispatch():
	"""Restrict every setting to optional features this CPU really has (NumPy refuses / warns about others), drop settings that
	would be identical to an earlier one."""
	import subprocess, json
	try:
		p = subprocess.run(['/venv/bin/python', '-c', 'import json; from numpy.core._multiarray_umath import __cpu_features__ as f, __cpu_dispatch__ as d; print(json.dumps([x for x in d if f.get(x)]))'],
		                   capture_output=True, text=True, timeout=120, env={k: v for k, v in __import__('os').environ.items() if k != 'NPY_DISABLE_CPU_FEATURES'})
		have = set(json.loads(p.stdout))
	except Exception:
		have = set()
	out, seen = {}, set()
	for name, feats in DISPATCH.items():
		fl = ' '.join(x for x in feats.split() if x in have)
		if fl in seen:
			continue
		seen.add(fl)
		out[name] = fl
	return out


def shards(tier, seed):
	out = []
	nw = 16 if tier == 'quick' else 48
	for dname, feats in available_dispatch().items():
		for threads in ([1, 16] if tier == 'quick' else [1, 4, 16]):
			env = {'OMP_NUM_THREADS': str(threads)}
			if feats:
				env['NPY_DISABLE_CPU_FEATURES'] = feats
			out.append(dict(name=f'api-{dname}-t{threads}', kind='api', dispatch=dname, threads=threads, nworlds=nw, env=env))
	out.append(dict(name='cli', kind='cli', nworlds=4 if tier == 'quick' else 20))
	return out


def ties_world(rng, n, style=None):
	from vf import world as W
	k, prefix = rng.choice([(7, 'AT'), (8, 'ACG'), (9, 'TA')])
	nq = rng.randint(1, 3)
	m = 12
	style = style or rng.choice(['few-values', 'few-values', 'all-equal', 'all-one', 'mixed', 'near-ties'])
	if style == 'near-ties':
		# real-size signatures: distances that differ by 1e-6 .. 1e-5 (distinct float32 values that agree to 5 decimals)
		k, prefix = 11, 'AT'
		m = rng.choice([1000, 2000, 4000]) if n <= 300 else 1000
		nq = 1
	w = W.World(k, prefix)
	W.gen_taxonomy(rng, w, nt=rng.randint(1, 6), names='plain')
	combos = [(rng.randint(0, m), rng.randint(0, 3)) for _ in range(rng.choice([1, 2, 3, 5]))]
	if style == 'near-ties':
		combos = [(m - rng.randint(0, 3), 0), (m // 2, 0)]
	B = nq * m
	for i in range(n):
		sig = set()
		for j in range(nq):
			if style == 'near-ties':
				# family t: (a, b) = (m - t + j, j) has distance t / (m + j): members differ by about t / m^2 (1e-6 for m = 1000)
				t = rng.choice([2, 3, 3, m // 2]) if rng.random() < 0.9 else rng.randint(0, m)
				b = rng.randint(0, min(t, 3))
				a = m - t + b
			elif style == 'all-equal':
				a, b = combos[0]
			elif style == 'all-one':
				a, b = 0, 1
			elif style == 'mixed' and rng.random() < 0.3:
				a, b = rng.randint(0, m), rng.randint(0, 6)
			else:
				a, b = rng.choice(combos)
			sig |= set(range(j * m, j * m + a))
		# own block: b elements, *shared layout* so that |R| depends only on (a, b): ties stay exact
		sig |= set(range(B + i * 8, B + i * 8 + b))
		if not sig:
			sig = {B + i * 8}
		if i == 0 and style != 'near-ties' and n >= 2:
			sig = set(range(0, m))                 # identical to query 0: distance exactly 0
		W.add_genome(w, rng, i, rng.randrange(len(w.taxa)), sig, names_pool=['plain'])
	for j in range(nq):
		w.queries.append(dict(label=f'q{j}', sig=list(range(j * m, (j + 1) * m)), contigs=None))
	# signatures of genomes that are not in the genome table, stored between the others (a gap in the used positions)
	for e in range(rng.choice([0, 1, 2, 5])):
		w.extra.append(dict(id=f'unrelated/{e}', int_id=900000 + e, sig=sorted(rng.sample(range(B + n * 8 + 50), rng.randint(0, 10)))))
	w.finalize()
	W.assign_thresholds(rng, w)
	if style != 'near-ties' and n >= 2 and rng.random() < 0.6:
		# the diameter of a single-genome species: a threshold of exactly 0 covers a distance of exactly 0 and nothing else
		w.taxa[w.genomes[0]['taxon']].thr = 0.0
		w.zero_threshold = True
	return w


def check_item(ctx, w, qi, item_closest, closest_match_key, N, order, w_desc, what):
	"""item_closest: list of (genome key, distance float, matched taxon key)."""
	n = len(w.genomes)
	exp = w.closest_list(qi, N, order)
	got_keys = [g for g, _, _ in item_closest]
	exp_keys = [w.genomes[gi]['key'] for gi in exp]
	row = [w.dist(qi, gi) for gi in w.db_order(order)]
	tie = len(set(row)) < len(row)
	if len(item_closest) != min(N, n):
		ctx.violation('list-length', f'{what}: {len(item_closest)} entries for N={N}, n={n}', w_desc)
		return
	if got_keys != exp_keys:
		gd = [d for _, d, _ in item_closest]
		if any(b < a for a, b in zip(gd, gd[1:])):
			mech = 'list-not-in-distance-order'
		elif sorted(got_keys) == sorted(exp_keys) or [w.dist(qi, int(k.split('g')[-1])) for k in got_keys] == [w.dist(qi, gi) for gi in exp]:
			mech = 'tie-order-not-reference-order'
		else:
			mech = 'list-not-nearest-prefix'
		first = next(i for i, (a, b) in enumerate(zip(got_keys, exp_keys)) if a != b)
		ctx.violation(mech, f'{what}: entry {first} is {got_keys[first]} expected {exp_keys[first]} (N={N}, n={n}); head got {got_keys[:6]} expected {exp_keys[:6]}', w_desc)
		return
	for (gk, d, mk), gi in zip(item_closest, exp):
		if J.bits(d) != J.bits(w.dist(qi, gi)):
			ctx.violation('entry-distance', f'{what}: {gk} distance {d!r} expected {w.dist(qi, gi)!r}', w_desc)
			break
		m = TX.matching(w.taxa[w.genomes[gi]['taxon']], w.dist(qi, gi))
		if mk != (None if m is None else w.tinfo[m.i]['key']):
			ctx.violation('entry-matched-taxon', f'{what}: {gk} matched {mk} expected {None if m is None else w.tinfo[m.i]["key"]}', w_desc)
			break
	if closest_match_key is not None and got_keys and got_keys[0] != closest_match_key:
		ctx.violation('first-entry-not-closest-match', f'{what}: closest_genomes[0] = {got_keys[0]} but closest match = {closest_match_key}', w_desc)
	return tie


def run_api(sh, ctx):
	from vf import world as W
	from gambit.db import ReferenceDatabase
	from gambit.query import query, QueryParams
	from gambit._cython.threads import omp_set_num_threads
	from numpy.core._multiarray_umath import __cpu_features__ as feats
	ctx.notes['cpu_features_in_effect'] = {sh['dispatch']: sorted(k for k, v in feats.items() if v and k in ('AVX', 'AVX2', 'FMA3', 'AVX512F', 'AVX512_SKX', 'AVX512_ICL', 'SSE42', 'SSSE3'))}
	rng = random.Random(f'C09-{ctx.seed}')        # the same worlds in every shard: digests are compared across settings
	omp_set_num_threads(sh['threads'])
	digests = {}
	# one size from each sorting regime first (deterministically covered), the rest drawn at random
	sizes = [rng.choice([2, 3, 5, 8, 13, 16]), rng.choice([17, 18, 33, 64]), rng.choice([100, 257, 500, 1100])]   # 1100 > default reference chunk size
	sizes += [rng.choice([1, 2, 3, 5, 8, 13, 16, 17, 18, 33, 64, 100, 257, 500]) for _ in range(max(sh['nworlds'] - 3, 0))]
	if len(sizes) > 3:
		sizes[3] = max(sizes[3], 8)      # the near-ties world needs a few references
	SHARED_N = 17
	shared = QueryParams(report_closest=SHARED_N)
	for wi in range(sh['nworlds']):
		n = sizes[wi]
		w = ties_world(rng, n, style='near-ties' if wi == 3 else None)
		order = list(range(n))
		if rng.random() < 0.5:
			rng.shuffle(order)
		d = w.write_db(ctx.workdir / f'w{wi}', sig_order=order, interleave_seed=wi)
		if w.extra:
			ctx.count('databases_with_unlisted_signatures_in_between')
		if getattr(w, 'zero_threshold', False):
			ctx.count('worlds_with_zero_threshold_and_zero_distance')
		db = ReferenceDatabase.load_from_dir(d)
		try:
			qs = [np.array(q['sig'], dtype=w.dtype) for q in w.queries]
			for N in sorted({1, 2, 10, n, n + 5}):
				for chunk in (1, 7, 1000, None):
					if n > 100 and chunk == 1 and N not in (10,):
						continue
					strict = (N == 10 and chunk in (7, None))
					res = query(db, qs, QueryParams(chunksize=chunk, report_closest=N, classify_strict=strict))
					if strict:
						ctx.count('strict_mode_queries')
					for qi, item in enumerate(res.items):
						lst = [(m.genome.key, float(m.distance), None if m.matched_taxon is None else m.matched_taxon.key) for m in item.closest_genomes]
						desc = dict(n=n, N=N, chunk=chunk, threads=sh['threads'], dispatch=sh['dispatch'], world_seed_index=wi, query=qi, sig_order=order[:30],
						            row=[w.dist(qi, gi) for gi in order][:40])
						tie = check_item(ctx, w, qi, lst, item.classifier_result.closest_match.genome.key, N, order, desc, 'query()')
						ctx.case(('api', wi, qi, N), nontrivial=bool(tie), sample=dict(n=n, N=N, row_head=desc['row'][:10], closest=[x[0] for x in lst[:5]]) if wi == 1 and qi == 0 and N == 10 and chunk is None else None)
						srow = sorted(set(desc['row']))
						if any(0 < b - a < 1e-5 for a, b in zip(srow, srow[1:])):
							ctx.count('rows_with_near_ties')   # distinct distances closer than 1e-5
						if tie:
							ctx.count('rows_with_ties')
							mn = min(desc['row']) if desc['row'] else None
							if n <= 40 and desc['row'].count(mn) > 1:
								ctx.count('rows_with_tied_minimum')
						ctx.count(f'n_regime:{"<=16" if n <= 16 else ("17-64" if n <= 64 else ">64")}')
						digests[f'{wi}/{qi}/{N}/{chunk}'] = [x[0] for x in lst][:50]
			# one parameter object the caller keeps and uses for every database of the run (smaller ones first): N is what the caller
			# asked for, whatever databases were queried with the same object before
			res = query(db, qs, shared)
			ctx.count('queries_with_a_params_object_used_on_other_databases_before', int(wi > 0))
			if wi > 0 and min(sizes[:wi]) < SHARED_N <= n:
				ctx.count('reused_params_after_a_database_smaller_than_N')
			for qi, item in enumerate(res.items):
				lst = [(m.genome.key, float(m.distance), None if m.matched_taxon is None else m.matched_taxon.key) for m in item.closest_genomes]
				desc = dict(n=n, N=SHARED_N, chunk='default', threads=sh['threads'], dispatch=sh['dispatch'], world_seed_index=wi, query=qi, sig_order=order[:30],
				            row=[w.dist(qi, gi) for gi in order][:40], params_object=f'QueryParams(report_closest={SHARED_N}) created once, used before on databases of {sizes[:wi]} references')
				check_item(ctx, w, qi, lst, item.classifier_result.closest_match.genome.key, SHARED_N, order, desc, 'query() with a re-used parameter object')
		finally:
			db.signatures.close()
			db.session.close()
	# digest per (world, query, N): must be identical over chunk sizes here and over shards in finalize
	byk = {}
	for k, v in digests.items():
		wi, qi, N, chunk = k.split('/')
		byk.setdefault(f'{wi}/{qi}/{N}', set()).add(tuple(v))
	for k, vs in byk.items():
		if len(vs) > 1:
			ctx.violation('differs-between-chunk-sizes', f'{k}: {len(vs)} different lists over chunk sizes', dict(key=k))
	ctx.notes['digests'] = {sh['name']: {k: J.bits(0) + core.h64(sorted(list(v_) for v_ in vs)) % (2 ** 31) for k, vs in byk.items()}}
	ctx.notes['digest_lists'] = {sh['name']: {k: list(next(iter(vs)))[:12] for k, vs in list(byk.items())[:400]}}


def run_cli(sh, ctx):
	from vf import world as W, clidrv
	rng = random.Random(f'C09-cli-{ctx.seed}')
	for wi in range(sh['nworlds']):
		n = rng.choice([3, 8, 17, 40, 120]) if wi else rng.choice([8, 17, 40])
		w = ties_world(rng, n, style='near-ties' if wi == 0 else None)
		order = list(range(n)); rng.shuffle(order)
		d = w.write_db(ctx.workdir / f'c{wi}', sig_order=order)
		qs = w.write_query_sigs(ctx.workdir / f'c{wi}_q.gs')
		outs = {}
		strict = wi % 2 == 1
		for fmt in ('csv', 'json'):
			o = ctx.workdir / f'c{wi}.{fmt}'
			code, so, se, exc = clidrv.run_inproc(['-d', d, 'query', '-f', fmt, '-o', o, '--no-progress', '-s', qs] + (['--strict'] if strict else []) + (['-c', rng.choice([1, 4, 16])] if rng.random() < 0.5 else []))
			ctx.count('cli_commands')
			if code != 0:
				ctx.violation('cli-fails', f'gambit query -f {fmt} exited {code}: {se[-200:]} {exc}', dict(world=w.describe()))
				outs = None
				break
			outs[fmt] = open(o, newline='').read()
		if not outs:
			continue
		rows = list(csv.DictReader(io.StringIO(outs['csv'], newline='')))
		js = json.loads(outs['json'])
		for qi, (row, it) in enumerate(zip(rows, js['items'])):
			desc = dict(n=n, world=w.describe() if n <= 8 else dict(n=n), query=qi, sig_order=order[:30])
			lst = [(m['genome']['key'], m['distance'], None if m['matched_taxon'] is None else m['matched_taxon']['key']) for m in it['closest_genomes']]
			tie = check_item(ctx, w, qi, lst, None, 10, order, desc, 'gambit query -f json')
			ctx.case(('cli', wi, qi), nontrivial=bool(tie))
			jd = it['closest_genomes'][0]['genome']['description']
			if row['closest.description'] != jd:
				ctx.violation('csv-json-name-different-closest', f'CSV closest.description={row["closest.description"]!r} JSON closest_genomes[0]={jd!r}', desc)
			if float(np.float32(row['closest.distance'])) != float(np.float32(it['closest_genomes'][0]['distance'])):
				ctx.violation('csv-json-name-different-closest', 'CSV and JSON closest distances differ', desc)
			ctx.count('csv_json_pairs')


def run_shard(sh, ctx):
	{'api': run_api, 'cli': run_cli}[sh['kind']](sh, ctx)


def finalize(merged, tier, seed, inconclusive):
	c = merged['counters']
	for n in ['strict_mode_queries', 'rows_with_ties', 'rows_with_tied_minimum', 'n_regime:<=16', 'n_regime:17-64', 'n_regime:>64', 'csv_json_pairs', 'rows_with_near_ties', 'databases_with_unlisted_signatures_in_between', 'worlds_with_zero_threshold_and_zero_distance', 'reused_params_after_a_database_smaller_than_N']:
		if c.get(n, 0) == 0:
			inconclusive.append(f'class never observed: {n}')
	dg = merged['notes'].get('digest_lists', {})
	names = sorted(dg)
	diffs = 0
	if len(names) >= 2:
		ref = dg[names[0]]
		for nm in names[1:]:
			for k, v in dg[nm].items():
				if k in ref and ref[k] != v:
					diffs += 1
					if diffs <= 2:
						merged['violations'].append(dict(mech='differs-between-dispatch-or-thread-settings', msg=f'{k}: {names[0]} -> {ref[k]} but {nm} -> {v}', witness=dict(key=k, a=names[0], b=nm), shard=nm))
		if diffs:
			merged['viol_per_mech']['differs-between-dispatch-or-thread-settings'] += diffs
	else:
		inconclusive.append('fewer than two dispatch/thread settings produced digests')
	feats = merged['notes'].get('cpu_features_in_effect', {})
	if len(available_dispatch()) >= 2 and len({tuple(v) for v in feats.values()}) < 2:
		inconclusive.append('NPY_DISABLE_CPU_FEATURES had no effect: only one dispatch setting was really in effect')
	merged['notes'].pop('digest_lists', None)
	merged['notes'].pop('digests', None)
	return dict(exhaustive=False, settings_compared=names, cross_setting_differences=diffs)
