"""C02 - Jaccard distance equals |A xor B| / |A or B|, correctly rounded to float32.

Monitor: bit-for-bit comparison of every real jaccarddist / jaccard call with an exact-rational oracle."""

import itertools
import random

import numpy as np

from vf.oracles import jaccard as J
from vf.props import _metric as M

LEVEL = 'exploration'
RULE = ('cases = ordered pair of sorted duplicate-free arrays with independent dtypes; exhaustive: all ordered pairs of subsets of a '
        '6..8-value universe (values at the top of each integer range included) for all 6x6 dtype pairs; structural classes '
        '(equal, disjoint, nested, interleaved, last-equal, exhausted-first, singles, near-equal, random) at sizes up to 1e5; '
        'strided views; both argument orders; non-trivial = union non-empty; distinct = (dtypeA, dtypeB, A, B) by hash')
ASSUMPTIONS = ['signed arrays hold non-negative values (documented contract of the unsigned reinterpretation)',
               'jaccard() may be float32(1)-float32(d) or double 1-d: both are "one minus the distance"',
               'for |A or B| >= 2^24 the statement does not demand bit-exactness: 2 ulp tolerance there']
REACH = ['gambit.metric:jaccarddist', 'gambit.metric:jaccard', 'gambit.metric:_cast_sigs_array']


def shards(tier, seed):
	out = []
	pairs = [(a, b) for a in M.DTYPES for b in M.DTYPES]
	for i, (a, b) in enumerate(pairs):
		out.append(dict(name=f'exh-{a}-{b}', kind='exh', dta=a, dtb=b))
	n = 8 if tier == 'quick' else 32
	for i in range(n):
		out.append(dict(name=f'struct-{i}', kind='struct', sub=i, rounds=25 if tier == 'quick' else 150, maxsize=20000 if tier == 'quick' else 100000))
	out.append(dict(name='widths', kind='widths'))
	out.append(dict(name='bulk-widths', kind='bulk', n=60 if tier == 'quick' else 600, env={'OMP_NUM_THREADS': '16'}))
	out.append(dict(name='endian', kind='endian', n=12 if tier == 'quick' else 100))
	if tier == 'thorough':
		out.append(dict(name='huge', kind='huge'))
	out.append(dict(name='asan-struct', kind='struct', sub=777, rounds=10 if tier == 'quick' else 60, maxsize=5000, sanitizer='asan'))
	out.append(dict(name='asan-exh', kind='exh', dta='u2', dtb='i8', sanitizer='asan'))
	for s_ in out:
		if s_.get('kind') in ['struct'] and not s_.get('sanitizer'):
			s_['contracts'] = ['C02']
	out.append(dict(name='suite-contracts', kind='suite-contracts', which=['C02'], tests=['tests/test_metric.py']))
	return out


class Chk:
	def __init__(self, ctx):
		import gambit.metric as gm
		self.gm, self.ctx = gm, ctx

	def pair(self, A, B, dta, dtb, cls='', strided=False, sample=False):
		"""A, B: sorted lists of distinct non-negative ints."""
		ctx, gm = self.ctx, self.gm
		a, b = np.array(A, dtype=dta), np.array(B, dtype=dtb)
		if strided:
			a2 = np.zeros(2 * len(a), dtype=dta); a2[::2] = a; a = a2[::2]
			b2 = np.zeros(3 * len(b), dtype=dtb); b2[::3] = b; b = b2[::3]
			ctx.count('strided_views')
		sa, sb = set(A), set(B)
		s, u = J.dist_su(sa, sb)
		exp = J.expected_bits(s, u)
		if exp is None:
			ctx.inconc(f'oracle disagreement for s={s} u={u}')
			return
		small = len(A) + len(B) <= 16
		key = (dta, dtb, A, B) if small else (dta, dtb, len(A), len(B), s, u, cls, A[:3], B[:3])
		smp = dict(dtypes=[dta, dtb], A=A[:12], B=B[:12], sym_diff=s, union=u, expected_f32_bits=hex(exp), cls=cls) if sample else None
		ctx.case(key, nontrivial=u > 0, sample=smp)
		ctx.count(f'dtypes:{dta}/{dtb}')
		if cls:
			ctx.count(f'class:{cls}')
		ctx.seen('ratios', (s, u) if u < 4096 else (0, 0))
		w = dict(dtypes=[dta, dtb], A=A[:40], B=B[:40], lenA=len(A), lenB=len(B), s=s, u=u, cls=cls, strided=strided)
		for x, y, order in ((a, b, 'ab'), (b, a, 'ba')):
			d = gm.jaccarddist(x, y)
			ctx.evals += 1
			df = float(d)
			if float(np.float32(df)) != df:
				ctx.violation('dist-not-float32-value', f'jaccarddist returned {df!r}, not a float32 value', w)
			got = J.bits(df)
			if got != exp:
				ctx.violation('dist-bits', f'jaccarddist[{order}] = {df!r} (bits {got:#x}) expected bits {exp:#x} = {float(np.uint32(exp).view("f4"))!r} for s/u={s}/{u}', w)
			jv = float(gm.jaccard(x, y))
			e32 = float(np.float32(1) - np.uint32(exp).view('f4'))
			e64 = 1.0 - float(np.uint32(exp).view('f4'))
			if jv != e32 and jv != e64:
				ctx.violation('index-not-one-minus-dist', f'jaccard[{order}] = {jv!r}, expected {e32!r} (float32) or {e64!r} (double)', w)
		if u == 0:
			ctx.count('both_empty')


def run_shard(sh, ctx):
	c = Chk(ctx)
	kind = sh['kind']
	if kind == 'exh':
		dta, dtb = sh['dta'], sh['dtb']
		common, extra = M.universe_for(dta, dtb)
		ua = common + (extra if M.maxval(dta) > M.maxval(dtb) else [])
		ub = common + (extra if M.maxval(dtb) > M.maxval(dta) else [])
		ctx.notes['exhaustive_scopes'] = [f'{dta}/{dtb}: all subsets of {ua} x all subsets of {ub}']
		n = 0
		for ra in range(len(ua) + 1):
			for A in itertools.combinations(ua, ra):
				for rb in range(len(ub) + 1):
					for B in itertools.combinations(ub, rb):
						n += 1
						c.pair(list(A), list(B), dta, dtb, cls='exh', sample=(n % 3001 == 0))
	elif kind == 'struct':
		rng = random.Random(f'C02-{ctx.seed}-{sh["sub"]}')
		for r in range(sh['rounds']):
			for name, A, B in M.structural_pairs(rng, sh['maxsize']):
				# choose an offset that pushes values towards the top of a random dtype's range
				dta, dtb = rng.choice(M.DTYPES), rng.choice(M.DTYPES)
				top = min(M.maxval(dta), M.maxval(dtb))
				hi = max(A + B, default=0)
				if hi > top:
					dta = dtb = rng.choice(['u4', 'u8', 'i4', 'i8'])
					top = min(M.maxval(dta), M.maxval(dtb))
				off = rng.choice([0, 0, top - hi, (top - hi) // 2])
				A2, B2 = [x + off for x in A], [x + off for x in B]
				c.pair(A2, B2, dta, dtb, cls=name, strided=(r % 5 == 0), sample=(r == 0 and name in ('nested', 'random')))
	elif kind == 'widths':
		# comparisons straddling 2^15, 2^16, 2^31, 2^32, 2^63
		cases = []
		for lo, hi in (('u2', 'u4'), ('u2', 'u8'), ('u4', 'u8'), ('i2', 'u2'), ('i4', 'u4'), ('i8', 'u8'), ('i2', 'i8'), ('u2', 'i4'), ('i4', 'u8')):
			m = M.maxval(lo)
			cases += [(lo, hi, [m], [m, m + 1]), (lo, hi, [m - 1, m], [m + 1]), (lo, hi, [0, m], [0, m, m + 1, M.maxval(hi)]),
			          (lo, hi, [], [M.maxval(hi)]), (lo, hi, [m], [M.maxval(hi)]), (lo, hi, [1, m], [m + 1, M.maxval(hi)])]
		for lo, hi, A, B in cases:
			c.pair(A, B, lo, hi, cls='width-straddle', sample=True)
	elif kind == 'endian':
		import gambit.metric as gm
		rng = random.Random(f'C02-endian-{ctx.seed}')
		for t in range(sh['n']):
			A = sorted(rng.sample(range(0, 3000), rng.randint(0, 20)))
			B = sorted(set(rng.sample(range(0, 3000), rng.randint(0, 20))) | set(A[:rng.randint(0, len(A))]))
			su = J.dist_su(set(A), set(B))
			exp = J.expected_bits(*su)
			for dta in M.DTYPES:
				for dtb in M.DTYPES:
					for swap in ((True, False), (False, True), (True, True)):
						a = np.array(A, dtype=np.dtype(dta).newbyteorder('>') if swap[0] else dta)
						b = np.array(B, dtype=np.dtype(dtb).newbyteorder('>') if swap[1] else dtb)
						ctx.case(('endian', dta, dtb, swap, A, B), nontrivial=su[1] > 0)
						for fn in (gm.jaccarddist, gm.jaccard):
							try:
								v = float(fn(a, b))
							except Exception as e:
								ctx.count('non_native_endian_rejected')
								ctx.seen('endian_rejection_errors', type(e).__name__)
								continue
							ctx.count('non_native_endian_accepted')
							d = v if fn is gm.jaccarddist else None
							ok = (J.bits(v) == exp) if fn is gm.jaccarddist else (v in (float(np.float32(1) - np.uint32(exp).view('f4')), 1.0 - float(np.uint32(exp).view('f4'))))
							if not ok:
								ctx.violation('non-native-endian-wrong-value', f'{fn.__name__}({a.dtype.str}, {b.dtype.str}) = {v!r} for s/u={su[0]}/{su[1]}: neither the exact value nor an error',
								              dict(A=A, B=B, dtypes=[a.dtype.str, b.dtype.str]))
	elif kind == 'bulk':
		# the distance reported by the bulk entry points for mixed-width inputs, against the exact oracle (not against the pairwise function)
		import gambit.metric as gm
		from gambit.sigs.base import SignatureArray, SignatureList
		rng = random.Random(f'C02-bulk-{ctx.seed}')
		# thousands of references in one concatenated collection, many threads, repeated: every cell is still the exact ratio
		for n_ in (1025, 3000):
			sets_ = [sorted(rng.sample(range(300), rng.randint(0, 9))) for _ in range(n_)]
			sa_ = SignatureArray([np.array(s_, dtype='u4') for s_ in sets_], None, dtype=np.dtype('u4'))
			for rep in range(4):
				q_ = rng.choice(sets_)
				got_ = gm.jaccarddist_array(np.array(q_, dtype=rng.choice(['u2', 'u4', 'i8'])), sa_)
				ctx.count('bulk_large_collection_calls')
				for j, r in enumerate(sets_):
					exp = J.expected_bits(*J.dist_su(set(q_), set(r)))
					ctx.evals += 1
					if J.bits(got_[j]) != exp:
						ctx.violation('bulk-dist-bits', f'{n_} references in one SignatureArray (16 threads): cell {j} = {float(got_[j])!r} expected bits {exp:#x}', dict(query=q_, ref=r, n=n_, repetition=rep)); break
		for t in range(sh['n']):
			rdt = rng.choice(['u2', 'u4', 'i2', 'i4'])
			qdt = rng.choice([d for d in M.DTYPES if M.maxval(d) > M.maxval(rdt)])
			top = M.maxval(rdt)
			refs = [sorted(set(rng.sample(range(0, 60), rng.randint(0, 12))) | ({top} if rng.random() < 0.3 else set())) for _ in range(rng.randint(1, 6))]
			# values of the query that the references' type cannot hold: beyond its signed range (top + 1) and, where the query type
			# allows, beyond its unsigned range too (2^bits); some of them are copies of reference elements moved up by that amount, so
			# that a silent wrap-around changes the intersection and not only the identity of an element
			bits = np.dtype(rdt).itemsize * 8
			shift = 2 ** bits if M.maxval(qdt) >= 2 ** bits + 60 and rng.random() < 0.7 else top + 1
			twins = [x for x in (refs[0][:2] + refs[-1][:1]) if x < 60]
			q = sorted(set(rng.sample(range(0, 60), rng.randint(1, 12))) | {x + shift for x in rng.sample(range(0, 60), 3) + twins} | ({top} if rng.random() < 0.5 else set())) if t % 5 else []
			refs = refs + [[]]   # always one empty reference: (empty, empty) must be 0, (non-empty, empty) must be 1
			qa = np.array(q, dtype=qdt)
			rarrs = [np.array(r, dtype=rdt) for r in refs]
			for cname, cont in (('SignatureArray', SignatureArray(rarrs, None, dtype=np.dtype(rdt))), ('SignatureList', SignatureList(list(rarrs), None, dtype=np.dtype(rdt))), ('list', list(rarrs))):
				got = gm.jaccarddist_array(qa, cont) if t % 2 else gm.jaccarddist_matrix([qa], cont, chunksize=rng.choice([None, 2]))[0]
				# a selection of the references in an order of the caller's choosing (rotation, shuffle, repeats, negative positions)
				nr = len(refs)
				sel = rng.choice([list(range(1, nr)) + [0], rng.sample(range(nr), nr), [rng.randrange(-nr, nr) for _ in range(nr + 2)], list(range(nr))[::-1]])
				gs = gm.jaccarddist_matrix([qa], cont, ref_indices=sel, chunksize=rng.choice([None, 2, 3, 100]))[0]
				ctx.count('bulk_selections')
				# the caller's own output buffer, laid out column-major / as a column of a table: the distances must arrive in it
				tab = np.full((nr, 3), np.nan, dtype='f4')
				gm.jaccarddist_array(qa, cont, out=tab[:, 1])
				fo = np.full((2, nr), np.nan, dtype='f4', order='F')
				gm.jaccarddist_matrix([qa, qa], cont, out=fo)
				ctx.count('bulk_strided_out_buffers')
				for j, r in enumerate(refs):
					exp = J.expected_bits(*J.dist_su(set(q), set(r)))
					ctx.evals += 1
					if not (J.bits(tab[j, 1]) == exp and J.bits(fo[0, j]) == exp and J.bits(fo[1, j]) == exp) or not np.isnan(tab[j, 0]):
						ctx.violation('bulk-dist-bits', f'caller-supplied strided out= via {cname}: column view holds {float(tab[j, 1])!r}, Fortran-ordered matrix {float(fo[0, j])!r} / {float(fo[1, j])!r}; expected bits {exp:#x}', dict(query=q, ref=r, container=cname)); break
				for pos, j in enumerate(sel):
					su = J.dist_su(set(q), set(refs[j])); exp = J.expected_bits(*su)
					ctx.evals += 1
					if J.bits(gs[pos]) != exp:
						ctx.violation('bulk-dist-bits', f'jaccarddist_matrix(ref_indices={sel}) via {cname}: column {pos} = {float(gs[pos])!r} expected bits {exp:#x} for reference {j} (s/u={su[0]}/{su[1]})', dict(query=q, ref=refs[j], selection=sel, container=cname)); break
				for j, r in enumerate(refs):
					su = J.dist_su(set(q), set(r))
					exp = J.expected_bits(*su)
					ctx.case(('bulk', cname, qdt, rdt, q, r), nontrivial=su[1] > 0)
					ctx.count(f'bulk:{cname}')
					if J.bits(got[j]) != exp:
						ctx.violation('bulk-dist-bits', f'bulk distance via {cname}: {float(got[j])!r} expected bits {exp:#x} for s/u={su[0]}/{su[1]} (query {qdt}, references {rdt})',
						              dict(query=q, ref=r, dtypes=[qdt, rdt], container=cname))
			# one list-backed collection used as references, edited by the caller WITHOUT changing its length (reversed, an element
			# replaced), and used again: every call answers for what the collection holds at that moment
			hl, hm = SignatureList(list(rarrs), None, dtype=np.dtype(rdt)), [list(r_) for r_ in refs]
			for stepi in range(3):
				gh = gm.jaccarddist_array(qa, hl)
				ctx.count('bulk_calls_on_a_list_edited_in_place')
				for j, r in enumerate(hm):
					exp = J.expected_bits(*J.dist_su(set(q), set(r)))
					ctx.evals += 1
					if J.bits(gh[j]) != exp:
						ctx.violation('bulk-dist-bits', f'jaccarddist_array on a SignatureList after {stepi} same-length edit(s) (reverse, element replaced): position {j} = {float(gh[j])!r} expected bits {exp:#x}', dict(query=q, ref=r, edits=stepi, container='SignatureList edited in place')); break
				if stepi == 0:
					hl.reverse(); hm.reverse()
				elif len(hm) >= 2:
					hl[0] = np.array(hm[-1], dtype=rdt); hm[0] = list(hm[-1])
					hl[len(hm) // 2] = np.array(q if (not q or max(q) <= M.maxval(rdt)) else hm[0], dtype=rdt); hm[len(hm) // 2] = list(q if (not q or max(q) <= M.maxval(rdt)) else hm[0])
			# plain Python sequences whose elements have DIFFERENT widths, the narrow ones first, a later one holding values the first
			# width cannot represent: all-against-all and one-against-all must still be the exact ratios
			wide = sorted({x + shift for x in rng.sample(range(0, 60), 5)} | set(rng.sample(range(0, 60), 3)))
			msets = [refs[0], refs[min(1, len(refs) - 1)], wide, q, sorted(set(wide) | {shift * 2 + 1} if M.maxval(qdt) > shift * 2 + 1 else wide)]
			mdts = [rdt, rdt, qdt, qdt, qdt]
			marrs = [np.array(s_, dtype=d_) for s_, d_ in zip(msets, mdts)]
			for cname, cont in (('mixed-width list', list(marrs)), ('mixed-width tuple', tuple(marrs)), ('mixed-width SignatureList', SignatureList(list(marrs), None))):
				try:
					row = gm.jaccarddist_matrix([qa], cont, chunksize=rng.choice([None, 2]))[0]
					P = gm.jaccarddist_pairwise(cont)
				except Exception as e:
					ctx.violation('bulk-raises', f'{cname}: {type(e).__name__}: {e}', dict(dtypes=mdts, sets=msets)); continue
				ctx.count(f'bulk:{cname}')
				for j, r in enumerate(msets):
					su = J.dist_su(set(q), set(r)); exp = J.expected_bits(*su)
					ctx.case(('bulk-mixed', cname, qdt, rdt, q, r), nontrivial=su[1] > 0)
					if J.bits(row[j]) != exp:
						ctx.violation('bulk-dist-bits', f'jaccarddist_matrix on a {cname}: {float(row[j])!r} expected bits {exp:#x} for s/u={su[0]}/{su[1]} (element dtypes {mdts}, element {j})', dict(query=q, ref=r, dtypes=mdts, container=cname)); break
					for i2, r2 in enumerate(msets):
						su2 = J.dist_su(set(r), set(r2)); exp2 = J.expected_bits(*su2)
						ctx.evals += 1
						if J.bits(P[j, i2]) != exp2:
							ctx.violation('bulk-dist-bits', f'jaccarddist_pairwise on a {cname}: cell ({j},{i2}) = {float(P[j, i2])!r} expected bits {exp2:#x} for s/u={su2[0]}/{su2[1]} (element dtypes {mdts})', dict(A=r, B=r2, dtypes=mdts, container=cname)); break
	elif kind == 'huge':
		n = (1 << 24) + 3
		a = np.arange(0, n, dtype='u4')
		b = np.arange(5, n + 10, dtype='u4')
		import gambit.metric as gm
		u = n + 10
		s = 15
		d = float(gm.jaccarddist(a, b))
		exp = J.expected_bits(s, u)
		ctx.case(('huge', n), sample=dict(cls='huge', lenA=n, lenB=n + 5, s=s, u=u, got=d))
		ctx.count('class:union>=2^24')
		if abs(int(J.bits(d)) - exp) > 2:
			ctx.violation('dist-bits-huge', f'|A or B| = {u}: got {d!r} bits {J.bits(d):#x}, expected within 2 ulp of {exp:#x}', dict(n=n))


def finalize(merged, tier, seed, inconclusive):
	c = merged['counters']
	for a in M.DTYPES:
		for b in M.DTYPES:
			if c.get(f'dtypes:{a}/{b}', 0) == 0:
				inconclusive.append(f'dtype pair never called: {a}/{b}')
	for n in ['class:equal', 'class:nested', 'class:disjoint-interleaved', 'class:last-equal', 'class:width-straddle', 'both_empty', 'strided_views', 'bulk:SignatureArray', 'bulk:list']:
		if c.get(n, 0) == 0:
			inconclusive.append(f'class never observed: {n}')
	merged['notes'].setdefault('sanitizer_stage', {})
	if not merged['notes'].get('overlay_loaded', {}).get('asan') and not merged['notes']['sanitizer_stage']:
		inconclusive.append('ASan/UBSan overlay was never loaded')
	return dict(exhaustive=True, distinct_ratios=len(merged['sets'].get('ratios', ())),
	            exhaustive_note='exh-* shards enumerate all ordered subset pairs of the per-dtype-pair universe; struct/widths shards are sampled')
