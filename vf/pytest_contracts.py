"""pytest plugin (-p vf.pytest_contracts): run the repository's own, unedited tests with the contracts on.
Results go to the file named by VERIF_CONTRACT_REPORT."""
import os, json


def pytest_configure(config):
	from vf import deps, contracts
	deps.ensure()
	which = tuple((os.environ.get('VERIF_CONTRACTS') or 'C01,C02,C03,C04,C05,C10,C20').split(','))
	config._verif_rebound = contracts.install(which)


def pytest_sessionfinish(session, exitstatus):
	from vf import contracts
	rep = contracts.report()
	rep['rebound'] = getattr(session.config, '_verif_rebound', {})
	rep['exitstatus'] = int(exitstatus)
	rep['collected'] = session.testscollected
	path = os.environ.get('VERIF_CONTRACT_REPORT')
	if path:
		with open(path, 'w') as f:
			json.dump(rep, f)
