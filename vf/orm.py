"""Mirror a plain taxonomy model (vf.oracles.taxonomy.T) into transient gambit ORM objects (no database)."""


def make_taxa(model_taxa, flags='bool'):
	"""model_taxa: list of T (index = position). Returns list of gambit Taxon objects, same order.
	flags: the type the report flags are given in - Python bool, numpy.bool_ (a mask computed with numpy) or int 0/1."""
	from gambit.db.models import Taxon
	import numpy as np
	conv = {'bool': bool, 'numpy': np.bool_, 'int': int}[flags]
	orm = [Taxon(key=f'k{t.i}', name=t.name, distance_threshold=t.thr if flags == 'bool' or t.thr is None else (np.float64(t.thr) if flags == 'numpy' else t.thr), report=conv(t.report)) for t in model_taxa]
	for t, o in zip(model_taxa, orm):
		if t.parent is not None:
			o.parent = orm[t.parent.i]
	return orm


def make_genomes(orm_taxa, taxon_indices, prefix='g'):
	from gambit.db.models import Genome, AnnotatedGenome
	out = []
	for j, ti in enumerate(taxon_indices):
		out.append(AnnotatedGenome(genome=Genome(key=f'{prefix}{j}', description=f'genome {j}'), taxon=orm_taxa[ti], organism=f'org{j}'))
	return out


def forests(n):
	"""All rooted labelled forests on n nodes as parent tuples (None = root)."""
	import itertools
	choices = [[None] + [j for j in range(n) if j != i] for i in range(n)]
	for par in itertools.product(*choices):
		ok = True
		for i in range(n):
			seen, x = set(), i
			while x is not None:
				if x in seen:
					ok = False
					break
				seen.add(x)
				x = par[x]
			if not ok:
				break
		if ok:
			yield par
