"""Contracts layer (icontract): weak, sound consequences of the property statements attached from the
harness to the real functions and re-bound in every module that imported them by name. Conditions
*record and return True* (a raising contract would abort what it observes); evaluation counters per
contract - zero evaluations means the contract decided nothing (inconclusive for that contract)."""

import sys
import json
from collections import Counter

import numpy as np

EVALS = Counter()
VIOLATIONS = []       # dict(contract=, property=, msg=)
MAXV = 20


class ContractBroken(Exception):
	pass


def _viol(name, prop, msg):
	if len(VIOLATIONS) < MAXV:
		VIOLATIONS.append(dict(contract=name, property=prop, msg=str(msg)[:500]))


def _rebind(orig, new):
	"""Replace every module-level reference to `orig` (from m import f) by `new`."""
	n = 0
	for mod in list(sys.modules.values()):
		d = getattr(mod, '__dict__', None)
		if not d or not getattr(mod, '__name__', '').startswith(('gambit', 'tests')):
			continue
		for k, v in list(d.items()):
			if v is orig:
				d[k] = new
				n += 1
	return n


# ---- conditions (named functions; argument names match the decorated functions) -----------------------------

def sig_sorted_typed(kmerspec, result):
	EVALS['C01:calc_signature'] += 1
	ok = isinstance(result, np.ndarray) and result.dtype == kmerspec.index_dtype and (len(result) < 2 or bool((result[1:] > result[:-1]).all()))
	if not ok:
		_viol('calc_signature: strictly increasing array of kspec.index_dtype', 'C01', f'dtype={getattr(result, "dtype", None)} head={getattr(result, "tolist", lambda: result)()[:8] if hasattr(result, "tolist") else result}')
	return True


def dist_in_unit_interval(result):
	EVALS['C02:jaccarddist-range'] += 1
	if not (0.0 <= float(result) <= 1.0):
		_viol('jaccarddist/jaccard in [0,1]', 'C15', f'result={result!r}')
	return True


def array_shape_range(refs, result):
	EVALS['C05:jaccarddist_array'] += 1
	if result.shape != (len(refs),) or result.dtype != np.float32 or (len(result) and not ((result >= 0).all() and (result <= 1).all())):
		_viol('jaccarddist_array: shape (len(refs),), float32, range [0,1]', 'C05', f'shape={result.shape} dtype={result.dtype}')
	return True


def matrix_shape_range(queries, refs, ref_indices, result):
	EVALS['C05:jaccarddist_matrix'] += 1
	n = len(refs) if ref_indices is None else len(ref_indices)
	if result.shape != (len(queries), n) or result.dtype != np.float32 or (result.size and not ((result >= 0).all() and (result <= 1).all())):
		_viol('jaccarddist_matrix: shape (nq, nrefs), float32, range [0,1]', 'C05', f'shape={result.shape} expected {(len(queries), n)}')
	return True


def pairwise_symmetric(sigs, indices, flat, result):
	EVALS['C05:jaccarddist_pairwise'] += 1
	n = len(sigs) if indices is None else len(indices)
	if flat:
		ok = result.shape == (n * (n - 1) // 2,)
	else:
		ok = result.shape == (n, n) and bool((result == result.T).all()) and not np.diagonal(result).any()
	if not ok or (result.size and not ((result >= 0).all() and (result <= 1).all())):
		_viol('jaccarddist_pairwise: symmetric, zero diagonal, range', 'C05', f'shape={result.shape} flat={flat}')
	return True


def consensus_comparable(taxa, result):
	if iter(taxa) is taxa:      # one-shot iterator: already consumed by the function, nothing to compare with
		return True
	EVALS['C10:consensus_taxon'] += 1
	cons = result[0]
	if cons is not None:
		cl = set(cons.ancestors(incself=True))
		for t in taxa:
			if t not in cl and cons not in set(t.ancestors(incself=True)):
				_viol('consensus_taxon: result is equal to, an ancestor of, or a descendant of every input', 'C10', f'consensus {cons} vs input {t}')
				break
	return True


def classify_post(ref_genomes, dists, strict, result):
	EVALS['C03:classify'] += 1
	dmin = float(np.min(dists))
	if float(result.closest_match.distance) != dmin:
		_viol('classify: closest_match.distance == min(dists)', 'C03', f'{result.closest_match.distance} vs {dmin}')
	if not strict:
		if (result.primary_match is not None) != (result.predicted_taxon is not None) or (result.primary_match is not None and result.primary_match is not result.closest_match):
			_viol('classify(non-strict): primary match is the closest match iff a taxon is predicted', 'C03', f'primary={result.primary_match} predicted={result.predicted_taxon}')
	elif result.predicted_taxon is not None:
		# predicted taxon comparable with the matched taxon of every genome
		from gambit.classify import matching_taxon
		p = result.predicted_taxon
		pl = set(p.ancestors(incself=True))
		for g, d in zip(ref_genomes, dists):
			m = matching_taxon(g.taxon, d)
			if m is not None and m not in pl and p not in set(m.ancestors(incself=True)):
				_viol('classify(strict): prediction is equal to, an ancestor of, or a descendant of every matched taxon', 'C10', f'predicted {p} vs matched {m}')
				break
	return True


def refdb_paired(self):
	EVALS['C04:ReferenceDatabase'] += 1
	try:
		attr = self.signatures.meta.id_attr
		ids = list(self.signatures.ids)
		n = self.genomeset.genomes.count()
		if len(self.genomes) != n or len(self.sig_indices) != n:
			_viol('ReferenceDatabase: one entry per genome of the set', 'C04', f'{len(self.genomes)} genomes for a set of {n}')
		for g, si in zip(self.genomes, self.sig_indices):
			gid = getattr(g.genome, attr)
			fid = ids[si]
			if (fid if isinstance(fid, str) else int(fid)) != gid:
				_viol('ReferenceDatabase: ids[sig_indices[i]] == id(genomes[i])', 'C04', f'{g.key}: {gid!r} vs file id {fid!r}')
				break
	except Exception as e:   # the contract must never break what it observes
		_viol('ReferenceDatabase contract could not be evaluated', 'C04', f'{type(e).__name__}: {e}')
	return True


def sigarray_bounds(self):
	EVALS['C20:SignatureArray-bounds'] += 1
	b = getattr(self, 'bounds', None)
	v = getattr(self, 'values', None)
	if b is None or v is None:
		return True
	b = np.asarray(b)
	if len(b) < 1 or b[0] != 0 or (len(b) > 1 and bool((np.diff(b) < 0).any())) or b[-1] > len(v):
		_viol('SignatureArray: bounds[0]==0, non-decreasing, bounds[-1] <= len(values)', 'C20', f'bounds head {b[:6]} tail {b[-3:]} len(values)={len(v)}')
	return True


# ---- installation --------------------------------------------------------------------------------------------

INSTALLED = []


def install(which=('C01', 'C02', 'C03', 'C04', 'C05', 'C10', 'C20')):
	"""Attach the contracts of the named properties. Returns dict name -> number of rebound references."""
	import icontract
	out = {}

	def wrap(mod, name, cond, key):
		orig = getattr(mod, name)
		new = icontract.ensure(cond, error=ContractBroken)(orig)
		setattr(mod, name, new)
		out[key] = 1 + _rebind(orig, new)
		INSTALLED.append((mod, name, orig, new))

	if 'C01' in which:
		import gambit.sigs.calc as gc
		wrap(gc, 'calc_signature', sig_sorted_typed, 'calc_signature')
	if 'C02' in which:
		import gambit.metric as gm
		wrap(gm, 'jaccarddist', dist_in_unit_interval, 'jaccarddist')
		wrap(gm, 'jaccard', dist_in_unit_interval, 'jaccard')
	if 'C05' in which:
		import gambit.metric as gm
		wrap(gm, 'jaccarddist_array', array_shape_range, 'jaccarddist_array')
		wrap(gm, 'jaccarddist_matrix', matrix_shape_range, 'jaccarddist_matrix')
		wrap(gm, 'jaccarddist_pairwise', pairwise_symmetric, 'jaccarddist_pairwise')
	if 'C03' in which or 'C10' in which:
		import gambit.classify as gcl
		wrap(gcl, 'consensus_taxon', consensus_comparable, 'consensus_taxon')
		wrap(gcl, 'classify', classify_post, 'classify')
	if 'C04' in which:
		import gambit.db.refdb as rd
		orig = rd.ReferenceDatabase.__init__
		new = icontract.ensure(refdb_paired, error=ContractBroken)(orig)
		rd.ReferenceDatabase.__init__ = new
		INSTALLED.append((rd.ReferenceDatabase, '__init__', orig, new))
		out['ReferenceDatabase.__init__'] = 1
	if 'C20' in which:
		import gambit.sigs.base as sb
		for meth in ('__init__', '_init_from_arrays'):
			orig = getattr(sb.SignatureArray, meth)
			new = icontract.ensure(sigarray_bounds, error=ContractBroken)(orig)
			setattr(sb.SignatureArray, meth, new)
			INSTALLED.append((sb.SignatureArray, meth, orig, new))
		out['SignatureArray'] = 2
	return out


def uninstall():
	while INSTALLED:
		mod, name, orig, new = INSTALLED.pop()
		setattr(mod, name, orig)
		_rebind(new, orig)


def report():
	return dict(evaluations=dict(EVALS), violations=list(VIOLATIONS))


def drain_into(ctx):
	"""Move recorded contract results into a shard recorder."""
	for k, v in EVALS.items():
		ctx.count(f'contract_evals:{k}', v)
	for v in VIOLATIONS:
		ctx.violation('contract:' + v['contract'].split(':')[0].replace(' ', '_'), f'contract broken: {v["contract"]} :: {v["msg"]}', dict(contract=v['contract']))
	EVALS.clear()
	VIOLATIONS.clear()
