"""Runs one shard of one property in a fresh process: python -m vf.worker spec.json out.json"""
import sys, json, os, importlib, traceback, random, shutil
from pathlib import Path


def main():
	spec = json.loads(Path(sys.argv[1]).read_text())
	from vf import core, deps
	deps.ensure()
	pid = spec['pid']
	mod = importlib.import_module(f'vf.props.{pid.lower()}')
	ctx = core.Ctx(pid, spec['tier'], spec['seed'], spec['shard'])
	ctx.workdir = Path(spec['workdir'])
	ctx.workdir.mkdir(parents=True, exist_ok=True)
	rc = 0
	if os.environ.get('VERIF_DUMP_AFTER'):     # debugging aid only: dumping frames while sys.monitoring is active crashed CPython 3.12.1 (SIGSEGV) in a long shard
		import faulthandler
		faulthandler.dump_traceback_later(int(os.environ['VERIF_DUMP_AFTER']), repeat=False, file=sys.stderr)
	try:
		ov = os.environ.get('VERIF_OVERLAY')
		if ov:
			import gambit._cython.metric as _m, gambit._cython.kmers as _k
			if not (_m.__file__.startswith(ov) and _k.__file__.startswith(ov)):
				raise RuntimeError(f'sanitizer overlay not loaded: {_m.__file__}')
			ctx.notes['overlay_loaded'] = {spec['shard'].get('sanitizer', 'plain'): 1}
		from vf import reach
		mon = reach.start(getattr(mod, 'REACH', []))
		cons = spec['shard'].get('contracts')
		if cons:
			from vf import contracts
			ctx.notes['contracts_rebound'] = contracts.install(tuple(cons))
		try:
			if spec['shard'].get('kind') == 'suite-contracts':
				from vf import suite
				suite.run_under_contracts(spec['shard'], ctx)
			else:
				mod.run_shard(spec['shard'], ctx)
		finally:
			if cons:
				contracts.drain_into(ctx)
				contracts.uninstall()
			if mon is not None:
				ctx.notes['reach'] = mon.stop()
	except BaseException as e:  # harness failure: inconclusive, never a violation
		ctx.inconc(f'harness exception in shard {spec["shard"].get("name")}: {type(e).__name__}: {e} :: '
		           + traceback.format_exc()[-1500:])
		rc = 4
	finally:
		shutil.rmtree(ctx.workdir, ignore_errors=True)
	ctx.dump(sys.argv[2])
	sys.stdout.flush()
	os._exit(rc)


if __name__ == '__main__':
	main()
