#!/venv/bin/python
"""Write the prompts for a round of seeded-change sub-agents: tools/seedprompt.py <round> <outdir> <focus-file>
Each prompt contains only the text of one property (from properties.jsonl), the one-line summaries of the changes already
kept for it (so that ideas are not repeated), the rules, and the round's focus paragraph - nothing else from /verif."""
import sys, json, re
from pathlib import Path
VERIF = Path(__file__).resolve().parent.parent
TEMPLATE = Path('/tmp/seedprompts4/C07.txt')


def main():
	rnd, outdir, focus = sys.argv[1], Path(sys.argv[2]), Path(sys.argv[3]).read_text().strip()
	outdir.mkdir(parents=True, exist_ok=True)
	base = (VERIF / 'tools/seedprompt_template.txt').read_text()
	props = [json.loads(l) for l in (VERIF / 'properties.jsonl').read_text().splitlines() if l.strip()]
	for p in props:
		pid = p['id']
		taken = []
		for d in sorted((VERIF / 'seeded').iterdir()):
			mf = d / 'meta.json'
			if mf.exists():
				m = json.loads(mf.read_text())
				if m.get('property') == pid and m.get('summary'):
					taken.append('- ' + m['summary'])
		mech = '\n'.join(f'- {m["name"]} ({m["where"]})' for m in p['anchors'].get('mechanism', []))
		txt = base.format(WT=f'/tmp/seed{rnd}/{pid}', PID=pid, TITLE=p['title'], STATEMENT=p['statement'], QUANT=p['quantifier']['text'], WHY=p['why_tests_cant'],
		                  FILES=', '.join(p['anchors'].get('files', [])), MECH=mech, TAKEN='\n'.join(taken) or '- (none yet)', FOCUS=focus, RND=rnd)
		(outdir / f'{pid}.txt').write_text(txt)
	print(len(props), 'prompts in', outdir)


if __name__ == '__main__':
	main()
