#!/venv/bin/python
"""Regenerates /verif/MANIFEST.json from the table below and validates it against the schema."""
import json, sys, subprocess
from pathlib import Path
VERIF = Path(__file__).resolve().parent.parent

BASELINE_OFF = "cd /repo && /venv/bin/python -m pytest -ra -q -p no:cacheprovider --timeout=900 --continue-on-collection-errors"

# pid -> (category, technique, level text, level note, design ref)
CHECKS = {
	'C01': ('exploration', 'runtime monitor: differential oracle (set definition) on every calc_signature/find_kmers call, exhaustive small scopes + seeded hostile classes, sys.monitoring reach',
	        'Every call of the real calc_signature / find_kmers made by the workload is compared with an independent executable definition of the signature; all sequences over ACGTN up to a length bound x a (k, prefix) grid are enumerated completely, the rest (k up to 32, arbitrary bytes, planted overlapping / flush / palindromic occurrences, four input types, both accumulators) is seeded sampling. Held = held on the executions observed.',
	        'Trusts vf/oracles/sigdef.py as the statement; native encoder only observed through its Python callers (sanitizer stage separately).', 'DESIGN.md 3/C01'),
}

NOT_APPLICABLE = []


def main():
	props = [json.loads(l)['id'] for l in (VERIF / 'properties.jsonl').read_text().splitlines() if l.strip()]
	checks = []
	for pid in props:
		if pid not in CHECKS:
			continue
		cat, tech, text, note, ref = CHECKS[pid]
		checks.append(dict(
			property_id=pid,
			quick_cmd=f'./check {pid} --tier quick',
			thorough_cmd=f'./check {pid} --tier thorough',
			evidence_file=f'/verif/evidence/{pid}.json',
			replay_cmd_template=f'./check {pid} --replay {{path}}',
			engine='vf',
			level_claimed=dict(category=cat, text=text, design_ref=ref),
			level_note=note,
			technique=tech,
		))
	na = list(NOT_APPLICABLE)
	claimed = {c['property_id'] for c in checks}
	listed = {n['property_id'] for n in na}
	for pid in props:
		if pid not in claimed and pid not in listed:
			na.append(dict(property_id=pid, reason='check not built yet in this round (runtime-monitoring check planned in DESIGN.md section 3)'))
	man = dict(
		version=1,
		setup_cmd='/venv/bin/python -m vf.setup',
		hooks=dict(guard='GAMBIT_VERIF', enable='no source hooks are needed: all observation points are reached from outside (module-attribute wrapping, sys.monitoring, executors, LD_PRELOAD sanitizer runtimes, strace)',
		           baseline_off_cmd=BASELINE_OFF, source_commits=[], add_only=True),
		engines=[dict(name='vf', path='/verif/vf', serves_properties=sorted(claimed), kind_free_text='python runtime-monitoring harness: generated workloads + reference-model oracles + sys.monitoring reach + sanitizer overlays')],
		checks=checks,
		notes='Runtime monitoring only. Exit 0 held-on-observed, 1 violation (VIOLATION line), 2 inconclusive (never on the unchanged tree). See DESIGN.md.',
		not_applicable=na,
	)
	(VERIF / 'MANIFEST.json').write_text(json.dumps(man, indent=1) + '\n')
	r = subprocess.run(['python3-vt', '-c', 'import json,jsonschema,sys; jsonschema.validate(json.load(open("/verif/MANIFEST.json")), json.load(open("/root/.vp/MANIFEST.schema.json"))); print("manifest valid,", len(json.load(open("/verif/MANIFEST.json"))["checks"]), "checks")'], capture_output=True, text=True)
	print(r.stdout, r.stderr)
	return r.returncode


if __name__ == '__main__':
	sys.exit(main())
