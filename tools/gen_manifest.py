#!/venv/bin/python
"""Regenerates /verif/MANIFEST.json from the table below and validates it against the schema."""
import json, sys, subprocess
from pathlib import Path
VERIF = Path(__file__).resolve().parent.parent

BASELINE_OFF = "cd /repo && /venv/bin/python -m pytest -ra -q -p no:cacheprovider --timeout=900 --continue-on-collection-errors"

# pid -> (category, technique, level text, level note, design ref)
CHECKS = {
	'C01': ('exploration', 'runtime monitor: differential oracle (set definition) on every calc_signature/find_kmers call, exhaustive small scopes + seeded hostile classes, sys.monitoring reach',
	        'Every call of the real calc_signature / find_kmers made by the workload is compared with an independent executable definition of the signature; all sequences over ACGTN up to a length bound x a (k, prefix) grid are enumerated completely, the rest (k up to 32, arbitrary bytes, planted overlapping / flush / palindromic occurrences, four input types, both accumulators) is seeded sampling. Held = held on the executions observed.',
	        'Trusts vf/oracles/sigdef.py as the statement; native encoder only observed through its Python callers (sanitizer stage separately).', 'DESIGN.md 3/C01'),
	'C02': ('exploration', 'runtime monitor: bit-for-bit comparison of every jaccarddist/jaccard call with an exact-rational float32 oracle; exhaustive subset pairs x 36 dtype pairs + structural classes; ASan/UBSan overlay of the generated C',
	        'Every real call is compared bit for bit with |A xor B|/|A or B| rounded once (two independent roundings must agree or the run is inconclusive). All ordered subset pairs of a per-dtype-pair universe containing the top of each integer range are enumerated for all 36 dtype pairs; large structural classes, strided views and width-straddling comparisons are sampled; the same workload runs against an ASan+UBSan build of the generated C.',
	        'Trusts vf/oracles/jaccard.py; sanitizer build comes from the generated C present in the tree (no Cython in the sandbox).', 'DESIGN.md 3/C02'),
	'C07': ('exploration', 'runtime monitor: positional-arithmetic oracle on kmer_to_index / kmer_to_index_rc / index_to_kmer / revcomp; exhaustive k<=8 and all 1-2 byte strings; ASan/UBSan overlay',
	        'All k-mers for k<=8 (three case patterns) and all byte strings of length <=2 over 0..255 are enumerated; boundary and random k-mers / indices for every k<=32, over-long k-mers must be rejected; all four accepted input types; same workload under ASan+UBSan.',
	        'Trusts vf/oracles/sigdef.py; "rejected with an error" = any exception.', 'DESIGN.md 3/C07'),
	'C15': ('exploration', 'runtime monitor: set-algebra oracle for range / identity / disjointness / bit symmetry / triangle (2^-22) / width invariance / strict decrease; exhaustive triples over 6-value universes, the same table through 13 bulk routes incl. two live slices of one open signature file; ASan overlay',
	        'The real pairwise distance table over all 64 subsets of five 6-value universes (incl. values colliding under 16/32-bit truncation) is computed for every width combination and all 64^3 ordered triples are checked; random triples built to stress the triangle inequality are sampled.',
	        'Strict decrease demanded only where it is a theorem for rounded values (A != B, |A or B|+1 < 2^22).', 'DESIGN.md 3/C15'),
	'C05': ('exploration', 'runtime monitor: bit-for-bit per-cell comparison of jaccarddist_array/_matrix/_pairwise with the two-signature function across containers, chunk sizes, index selections, NaN-canary output views, 1..16 OpenMP threads with repetition, several containers (signature files) open at once and used in turn; ASan/UBSan overlay; ThreadSanitizer overlay with a libgomp-aware report filter',
	        'Every cell of every bulk call is compared (uint32 view) with the real pairwise function; six container kinds incl. a file on disk, chunk sizes 1..n+2, permuted / repeated index selections, caller buffers surrounded by NaN canaries, thread counts 1..16 with each multi-threaded call repeated; chunk_slices enumerated exhaustively; a slice of the workload runs against ASan+UBSan and TSan builds of the generated C (TSan reports count only when both accesses are inside the OpenMP region on non-pragma lines).',
	        'Races that neither change a value in any observed run nor survive the TSan filter are out of reach; libgomp is uninstrumented.', 'DESIGN.md 3/C05, 2.4'),
	'C12': ('exploration', 'runtime monitor: write/read round trips compared with the in-memory original under every index kind; foreign byte contents must be refused with SignaturesFileError',
	        'Seeded collections over k 1..32 (all four index widths, values up to 4^k-1), both write paths, annotated wrappers, string / int / uint64 ids, metadata with None vs empty string, nested extra, every compression filter of this h5py build; foreign contents: empty, short, text, FASTA, gzip, SQLite, HDF5 of other kinds, user block, magic+junk, truncated copies.',
	        'NUL in strings and marker-bearing corrupt files are outside the stated domain.', 'DESIGN.md 3/C12'),
	'C20': ('exploration', 'runtime monitor: plain-list reference model for every index expression on the three collection kinds, SignatureList mutation histories replayed against a list with equality re-judged after every step, content-equality matrix',
	        'For collection lengths 0..7 and the in-memory, list-backed and on-disk kinds every integer (python and 9 numpy scalar types), every slice over the stated range, all boolean masks (n<=5), index lists/arrays in 9 dtypes, out-of-range and ill-typed indices are enumerated and compared with a plain list; seeded mutation histories with a sweep after each step; equality across 4x4 kind pairs and 9 difference classes.',
	        'Reference model = Python list / NumPy object-array indexing.', 'DESIGN.md 3/C20'),
	'C06': ('exploration', 'runtime monitor: absolute oracle (union of per-contig reference signatures) + metamorphic equality over file layouts; open-fd counting; ASan overlay; CLI slice',
	        'Seeded multi-contig genomes with cross-boundary traps are written in crossed layouts (orientation, order, case, wrap width 1..inf, LF/CRLF, final newline, gzip, extension disagreeing with content, auto/explicit compression) and every computed file signature must equal the union of per-contig signatures of the reference definition; all 2^c x c! orientation/order variants for c<=4 are enumerated for some genomes.',
	        'Trusts vf/oracles/sigdef.py and the FASTA writer in vf/oracles/fasta.py.', 'DESIGN.md 3/C06'),
	'C13': ('exploration', 'runtime monitor with schedule control: caller-supplied executor + acknowledging progress meter force every permutation of task completion order; as_completed wrapped to record the delivered order; real thread/process pools with size skew and injected delays; child processes that change directory after import (relative paths, decoys in the old directory); failure injection at every position',
	        'Every completion order of n<=6 files (thorough 7) is forced deterministically and the delivered order recorded; sequential, thread and process pools with 1..16 workers are driven with skewed file sizes and per-task delays and their observed completion orders recorded; an unreadable / malformed file at every position must make the call raise, and a caller-supplied executor must stay usable.',
	        'Forcing uses only documented parameters (executor=, progress=); recording wraps a module attribute from outside.', 'DESIGN.md 3/C13'),
	'C19': ('fault_enumeration', 'fault injection: writer child SIGKILLed immediately before/after every storage-library call (all enumerated), and at every pwrite64 via strace inject; reader outcome classified refused / loaded-equal / loaded-different',
	        'For small and medium payloads every storage-call crash point (before and after) of both write paths, with and without compression, is enumerated, and every pwrite64 crash point through strace; multi-megabyte payloads are sampled densely at both ends in the quick tier and fully in the thorough tier; the signatures-create CLI is killed at its storage calls as well.',
	        'Crash = process death with the OS up; torn writes and power-loss reordering are not modelled.', 'DESIGN.md 3/C19'),
	'C03': ('exploration', 'runtime monitor: parent-pointer taxonomy model vs classify() on transient ORM objects (exhaustive lineages x thresholds x report flags x distance grid), random forests, end-to-end query()/gambit query on synthetic databases; monotonicity on real outputs',
	        'Every lineage up to depth 5 (thorough 6) with thresholds in {None,.25,.5,.75} and all report-flag assignments is classified over a grid that contains every threshold and its float32 neighbours; closest match, prediction, primary match, next taxon, report taxon and monotonicity are compared with the model; random forests (depth up to 8+, ties for the minimum) and real databases with distances exactly on thresholds are sampled through the API and the CLI.',
	        'Thresholds are float32-representable; any genome at the minimum distance is accepted as closest (tie rule is C09).', 'DESIGN.md 3/C03'),
	'C04': ('exploration', 'runtime monitor: pairing invariant ids[sig_indices[i]] == id(genomes[i]) + per-genome distance oracle on databases with permuted / padded signature files for all four id attributes; several databases built from one long-lived genome-set object with committed identifier edits and a refused build in between; negative cases must fail to load',
	        'Synthetic databases with pairwise distinct signatures are written for each identifier attribute with sorted / reversed / random signature order, interleaved unrelated signatures and different value dtypes; after loading, the pairing is asserted and every distance reported through query() (all genomes requested, several chunk sizes) and the CLI archive is compared with the exact distance to that genome\'s own signature. Dropping each signature in turn, renaming an id, missing / misspelt / NULL / wrong-kind identifiers and 11 bad directory layouts must raise.',
	        'Duplicate ids in a signature file are outside the domain.', 'DESIGN.md 3/C04'),
	'C09': ('exploration', 'runtime monitor: (distance, reference order) oracle on every closest-genomes list from query() and the CLI, run in fresh processes under 4 NumPy CPU-dispatch settings x thread counts x chunk sizes with cross-setting digest comparison; one caller-owned parameter object re-used across databases of increasing size',
	        'Tie-heavy databases with 1..500 references (identical and equidistant genomes, all-equal and distance-1 rows) are queried with N in {1,2,10,n,n+5}; each list must be the stable (distance, position) prefix with bit-exact distances and per-entry matched taxa, its head must be the closest match, CSV and JSON must name the same closest genome, and the lists must be identical across NPY_DISABLE_CPU_FEATURES settings (read back from NumPy), OpenMP thread counts and chunk sizes.',
	        'CPU-feature dimension limited to what this CPU has and NumPy can switch off.', 'DESIGN.md 3/C09'),
	'C10': ('exploration', 'runtime monitor: strict-consensus model vs consensus_taxon / classify(strict=True) for every forest on <=5 taxa x every matched subset x every order; every permutation of reference genomes for seeded worlds; end-to-end --strict with permuted signature files',
	        'All 1296 rooted labelled forests on 5 taxa (plus n<=4; thorough: 6 taxa) x every non-empty matched subset x every order of encounter are pushed through the real consensus function and compared with the model (chain -> deepest, otherwise LCA of the most specific, none -> failed); classify(strict=True) is run on every permutation of up to 6 reference genomes for seeded forests biased to three-level conflicts and checked for prediction, success/error, conflict warning and primary match; gambit query --strict is run with the signature file order permuted.',
	        'Warnings not judged when the prediction is None; any minimum accepted as primary match.', 'DESIGN.md 3/C10'),
	'C08': ('exploration', 'runtime monitor: oracle row per genome + metamorphic equality with the alone-run over batches, orderings, input channels, -c, progress and formats of gambit query; query() chunk sizes; console-script slice',
	        'Sequence worlds (reference genomes mutated along a tree, signatures from the reference definition) are queried in batches of 1..30 files in several orders through positional arguments, list files (relative / absolute, blank lines), gzip copies and signature files made by signatures create or by the oracle, with -c 1..16, progress on/off, csv/json/archive and --strict; row count, order, labels (basename minus .gz minus FASTA extension, or stored id) and row content are compared with the oracle and with the row the genome gets alone.',
	        'Path fields / timestamps are not genome content; tied closest genomes resolved by reference order.', 'DESIGN.md 3/C08'),
	'C11': ('exploration', 'runtime monitor: results objects from real queries exported as csv/json/archive, parsed back with stdlib csv/json and the archive reader, compared field by field with plain attribute access, with exporters carrying other format options alive in the same process and one exporter object re-used for every result set; known-finding classifier by mechanism',
	        'Strict and non-strict result sets (no prediction, unreportable taxon, failed strict results, warnings, items without source file, primary != closest) with hostile labels / taxon names / genome descriptions are exported to paths and file objects, pretty or not, and through gambit query -f; CSV must parse back with a standard reader and every cell equal the attribute, JSON must be valid and carry label / reported / next taxon / closest genomes, the archive read back must equal the original incl. every distance bit, warnings, errors, params.',
	        'Known finding csv-bare-cr (bare CR written unquoted by the Python 3.12 csv module with LF terminator) is keyed by mechanism; every other CSV mismatch stays a violation.', 'DESIGN.md 3/C11'),
	'C14': ('exploration', 'runtime monitor: exit status + output inspection for every command / option combination bringing two signature sources together with mismatching parameters (different genomes as well as the same genomes under two parameter sets); oracle distances under the expected parameters for matching / inferred ones',
	        'For parameter pairs differing in k, prefix, both, prefix length or only prefix case, query -s (csv/json/archive/strict), dist with every query channel x reference channel x explicit / inferred -k/-p, incomplete -k/-p and --db-params conflicts are run: mismatches must exit non-zero and leave no result; matching / inferred combinations must give the oracle distances under the pre-computed side\'s or the database\'s (non-default) parameters.',
	        'An existing but empty -o file is not a result.', 'DESIGN.md 3/C14'),
	'C16': ('exploration', 'runtime monitor: CSV of gambit dist parsed with the stdlib reader and compared with oracle labels and float32 oracle distances for all 3 x 5 channel combinations',
	        'Genome sets with identical genomes, empty signatures and hostile file names / ids are passed through -q, --ql/--qdir, --qs and -r, --rl/--rdir, --rs, --use-db, --square with explicit, inferred or default parameters and -c; header, row labels, shape, 4-decimal format and value (within 0.5e-4) of every cell are checked, --square must be symmetric with zero diagonal and equal the both-sides run.',
	        'Exact halves accept either rounding.', 'DESIGN.md 3/C16'),
	'C17': ('exploration', 'runtime monitor: stdout of gambit tree parsed by an independent Newick parser and checked by a UPGMA validator (any legal tie-breaking accepted) against the oracle distance matrix',
	        'Sets of 2..40 genomes incl. identical genomes (zero-length merges), all-equidistant sets (every merge a tie), duplicate and Newick-special labels are given as files, list files and signature files; the output must be exactly one rooted binary tree with the input labels, non-negative branch lengths, ultrametric, and every internal node must join two current clusters at their average-linkage distance, minimal among all current pairs.',
	        'Tolerance derived from the 8 printed significant digits.', 'DESIGN.md 3/C17'),
	'C18': ('exploration', 'runtime monitor over histories: stat+sha256 snapshots after every step, SQLAlchemy cursor listener (no write statement), commit()/flush() behaviour of the default and CLI sessions, strace -f -y write-class syscalls on the two files',
	        'Seeded histories of read-side commands (query, dist --use-db, signatures info/create --db-params, tree), library calls, ORM edits with flush / autoflush / commit / rollback, failing commands and concurrent commands run against copies of synthetic databases and the bundled test database; after every step size, hash, inode, mtime and ctime of both files and the directory listing must be unchanged, no INSERT/UPDATE/DELETE/DDL may reach SQLite, commit must raise, and straced console-script runs must show no write-class system call on either file.',
	        'Histories are finite and drawn from the commands that exist today; SQLite opening the file O_RDWR is not an event.', 'DESIGN.md 3/C18'),
}

NOT_APPLICABLE = []


def main():
	props = [json.loads(l)['id'] for l in (VERIF / 'properties.jsonl').read_text().splitlines() if l.strip()]
	checks = []
	for pid in props:
		if pid not in CHECKS:
			continue
		cat, tech, text, note, ref = CHECKS[pid]
		checks.append(dict(
			property_id=pid,
			quick_cmd=f'./check {pid} --tier quick',
			thorough_cmd=f'./check {pid} --tier thorough',
			evidence_file=f'/verif/evidence/{pid}.json',
			replay_cmd_template=f'./check {pid} --replay {{path}}',
			engine='vf',
			level_claimed=dict(category=cat, text=text, design_ref=ref),
			level_note=note,
			technique=tech,
		))
	na = list(NOT_APPLICABLE)
	claimed = {c['property_id'] for c in checks}
	listed = {n['property_id'] for n in na}
	for pid in props:
		if pid not in claimed and pid not in listed:
			na.append(dict(property_id=pid, reason='check not built yet in this round (runtime-monitoring check planned in DESIGN.md section 3)'))
	man = dict(
		version=1,
		setup_cmd='/venv/bin/python -m vf.setup',
		hooks=dict(guard='GAMBIT_VERIF', enable='no source hooks are needed: all observation points are reached from outside (module-attribute wrapping, sys.monitoring, executors, LD_PRELOAD sanitizer runtimes, strace)',
		           baseline_off_cmd=BASELINE_OFF, source_commits=[], add_only=True),
		engines=[dict(name='vf', path='/verif/vf', serves_properties=sorted(claimed), kind_free_text='python runtime-monitoring harness: generated workloads + reference-model oracles + sys.monitoring reach + sanitizer overlays')],
		checks=checks,
		notes='Runtime monitoring only. Exit 0 held-on-observed, 1 violation (VIOLATION line), 2 inconclusive (never on the unchanged tree). See DESIGN.md.',
		not_applicable=na,
	)
	(VERIF / 'MANIFEST.json').write_text(json.dumps(man, indent=1) + '\n')
	r = subprocess.run(['python3-vt', '-c', 'import json,jsonschema,sys; jsonschema.validate(json.load(open("/verif/MANIFEST.json")), json.load(open("/root/.vp/MANIFEST.schema.json"))); print("manifest valid,", len(json.load(open("/verif/MANIFEST.json"))["checks"]), "checks")'], capture_output=True, text=True)
	print(r.stdout, r.stderr)
	return r.returncode


if __name__ == '__main__':
	sys.exit(main())
