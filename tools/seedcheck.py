#!/venv/bin/python
"""Confirm a seeded change delivered by a sub-agent and run the checks against it.

  tools/seedcheck.py <name> <dir-with-SEED> <property> [more properties to run ...] [--tier quick]

Steps (all in a fresh scratch worktree of /repo under /tmp/seedverify, removed afterwards):
  1. demo.py on the pristine tree       -> must exit 0
  2. apply patch.diff, demo.py again    -> must exit non-zero
  3. repository baseline suite          -> same 542 passing tests
  4. ./check <property> (VERIF_REPO=scratch) -> caught / missed
Writes /verif/seeded/<name>/{patch.diff,demo.py,notes.md,meta.json}."""
import sys, os, json, shutil, subprocess, time
from pathlib import Path
VERIF = Path(__file__).resolve().parent.parent


def sh(cmd, **kw):
	return subprocess.run(cmd, shell=isinstance(cmd, str), capture_output=True, text=True, **kw)


def main():
	args = [a for a in sys.argv[1:] if not a.startswith('--')]
	tier = 'quick'
	if '--tier' in sys.argv:
		tier = sys.argv[sys.argv.index('--tier') + 1]
		args = [a for a in args if a != tier]
	name, src, props = args[0], Path(args[1]), args[2:]
	seed = src / 'SEED' if (src / 'SEED').is_dir() else src
	dest = VERIF / 'seeded' / name
	dest.mkdir(parents=True, exist_ok=True)
	for f in ('patch.diff', 'native.diff', 'demo.py', 'notes.md'):
		if (seed / f).exists():
			shutil.copy(seed / f, dest / f)
	scratch = Path('/tmp/seedverify') / name
	if scratch.exists():
		sh(f'git -C /repo worktree remove --force {scratch}')
		shutil.rmtree(scratch, ignore_errors=True)
	scratch.parent.mkdir(exist_ok=True)
	r = sh(f'git -C /repo worktree add -q --detach {scratch} HEAD')
	assert r.returncode == 0, r.stderr
	meta = dict(name=name, property=props[0], repo_head=sh('git -C /repo rev-parse --short HEAD').stdout.strip(), ran=[])
	try:
		for f in Path('/repo/src/gambit/_cython').iterdir():
			if f.suffix in ('.so', '.c'):
				shutil.copy(f, scratch / 'src/gambit/_cython' / f.name)
		env = dict(os.environ, PYTHONPATH=str(scratch / 'src'))
		d0 = sh(['/venv/bin/python', str(dest / 'demo.py')], env=env, cwd=str(scratch), timeout=1200)
		meta['demo_pristine'] = dict(rc=d0.returncode, tail=(d0.stdout + d0.stderr)[-400:])
		if (dest / 'patch.diff').exists() and (dest / 'patch.diff').read_text().strip():
			ap = sh(f'git -C {scratch} apply --whitespace=nowarn {dest / "patch.diff"}')
		else:
			ap = sh('true')
		meta['patch_applies'] = ap.returncode == 0
		if ap.returncode:
			meta['patch_error'] = ap.stderr[-500:]
		if (dest / 'native.diff').exists():
			# change to the generated C of the native kernels (git-ignored, hence a separate diff): apply and rebuild the modules
			sys.path.insert(0, str(VERIF))
			from tools.seeds_all import apply_native
			err = apply_native(scratch, dest / 'native.diff')
			meta['native_applies'] = err is None
			if err:
				meta['patch_applies'] = False
				meta['patch_error'] = err
		meta['files_changed'] = sh(f'git -C {scratch} diff --stat').stdout.strip().splitlines()
		d1 = sh(['/venv/bin/python', str(dest / 'demo.py')], env=env, cwd=str(scratch), timeout=1200)
		meta['demo_changed'] = dict(rc=d1.returncode, tail=(d1.stdout + d1.stderr)[-600:])
		b = sh([str(VERIF / 'tools/baseline.py'), str(scratch)], timeout=3000)
		meta['baseline'] = b.stdout.strip().splitlines()[-3:]
		meta['baseline_ok'] = b.returncode == 0
		meta['confirmed'] = bool(meta['patch_applies'] and d0.returncode == 0 and d1.returncode != 0 and meta['baseline_ok'])
		meta['checks'] = {}
		for pid in props:
			evd = scratch / '_evidence'
			e2 = dict(os.environ, VERIF_REPO=str(scratch), VERIF_EVIDENCE_DIR=str(evd))
			e2.pop('PYTHONPATH', None)
			t0 = time.time()
			c = sh([str(VERIF / 'check'), pid, '--tier', tier], env=e2, timeout=7200)
			lines = [l[:400] for l in c.stdout.splitlines() if l.startswith(('VIOLATION', 'INCONCLUSIVE', 'KNOWN-FINDING'))]
			meta['checks'][pid] = dict(rc=c.returncode, tier=tier, wall_s=round(time.time() - t0, 1), lines=lines[:6], summary=c.stdout.strip().splitlines()[-1][:300] if c.stdout.strip() else c.stderr[-300:])
			meta['ran'].append(f'VERIF_REPO=<scratch worktree with patch> ./check {pid} --tier {tier} -> exit {c.returncode}')
		meta['caught_by'] = [p for p, v in meta['checks'].items() if v['rc'] == 1]
	finally:
		sh(f'git -C /repo worktree remove --force {scratch}')
		shutil.rmtree(scratch, ignore_errors=True)
		for r_ in (VERIF / '.native').glob('*/.repo'):
			if r_.read_text() == str(scratch):
				shutil.rmtree(r_.parent, ignore_errors=True)
	old = {}
	if (dest / 'meta.json').exists():
		try:
			old = json.loads((dest / 'meta.json').read_text())
		except ValueError:
			pass
	for k in ('needs_to_manifest', 'summary'):
		if k in old and k not in meta:
			meta[k] = old[k]
	(dest / 'meta.json').write_text(json.dumps(meta, indent=1) + '\n')
	print(json.dumps({k: meta[k] for k in ('name', 'confirmed', 'demo_pristine', 'demo_changed', 'baseline', 'caught_by')}, indent=1)[:1500])
	for p, v in meta['checks'].items():
		print(p, 'rc', v['rc'], v['lines'][:2])


if __name__ == '__main__':
	main()
