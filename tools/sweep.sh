#!/bin/sh
# tools/sweep.sh <tier> <seed-from> <seed-to> C01 C02 ...  : run checks over seeds into a scratch evidence dir; print non-clean lines
tier=$1; a=$2; b=$3; shift 3
out=/tmp/vsweep.$$; mkdir -p $out
for p in "$@"; do for s in $(seq $a $b); do
  VERIF_EVIDENCE_DIR=$out/ev VERIF_SEED=$s /verif/check $p --tier $tier > $out/$p.$s.log 2>&1; rc=$?
  echo "$p seed=$s rc=$rc $(tail -1 $out/$p.$s.log | cut -c1-200)"
  [ $rc -ne 0 ] && grep -E "^(VIOLATION|INCONCLUSIVE)" $out/$p.$s.log | head -5 | cut -c1-400
done; done
rm -rf $out
