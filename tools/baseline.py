#!/venv/bin/python
"""Run the repository's pinned baseline suite (hooks off) and compare with /root/.vp/BASELINE.json stable_pass."""
import json, subprocess, sys, tempfile, os
import xml.etree.ElementTree as ET
repo = sys.argv[1] if len(sys.argv) > 1 else '/repo'
b = json.load(open('/root/.vp/BASELINE.json'))
x = tempfile.mktemp(suffix='.xml')
env = dict(os.environ); env.pop('PYTHONPATH', None)
if repo != '/repo':
	env['PYTHONPATH'] = repo + '/src'
cmd = f'cd {repo} && /venv/bin/python -m pytest -ra -q -p no:cacheprovider --timeout=900 --continue-on-collection-errors --junitxml={x} -x -q >/dev/null 2>&1'
cmd = cmd.replace(' -x -q', '')
subprocess.run(cmd, shell=True, env=env)
passed = set()
for tc in ET.parse(x).getroot().iter('testcase'):
	if not any(c.tag in ('failure', 'error', 'skipped') for c in tc):
		cn = tc.get('classname', ''); nm = tc.get('name')
		passed.add(cn + '::' + nm)
os.unlink(x)
want = set(b['stable_pass'])
def norm(s): return s
# BASELINE ids look like tests.cli.test_common.TestX::test_y ; junit classname = tests.cli.test_common.TestX
missing = sorted(t for t in want if t not in passed)
print(f'baseline stable_pass={len(want)} passed_now={len(passed)} missing={len(missing)}')
for m in missing[:20]:
	print('  MISSING', m)
sys.exit(1 if missing else 0)
