#!/venv/bin/python
"""Re-run the property checks against every confirmed seeded change (regression of the monitors).
  tools/seeds_all.py [--tier quick] [--only name-substring] [--jobs 2]
Uses the patch stored in seeded/<name>/patch.diff on a fresh scratch worktree; does not repeat the demo / baseline confirmation."""
import sys, os, json, shutil, subprocess, time
from pathlib import Path
from concurrent.futures import ThreadPoolExecutor
VERIF = Path(__file__).resolve().parent.parent


def sh(cmd, **kw):
	return subprocess.run(cmd, shell=isinstance(cmd, str), capture_output=True, text=True, **kw)


def apply_native(scratch, diff):
	"""Apply a unified diff of src/gambit/_cython/*.c (paths a/src/... b/src/...) to the scratch tree and recompile the changed
	modules the way the repository's own build does (gcc on the generated C, -O2 -fopenmp). -> error text or None."""
	sys.path.insert(0, str(VERIF))
	from vf import native as N
	cy = Path(scratch) / 'src/gambit/_cython'
	before = {c.name: c.read_bytes() for c in cy.glob('*.c')}
	r = sh(f'patch -p1 -d {scratch} -i {diff}')
	if r.returncode:
		return 'native.diff does not apply: ' + (r.stdout + r.stderr)[-300:]
	for c in cy.glob('*.c'):
		if before.get(c.name) != c.read_bytes():
			try:
				N.compile_module(c, c.with_name(c.stem + N.EXT), 'plain')
			except Exception as e:
				return f'recompiling {c.name} failed: {str(e)[-300:]}'
	return None


def one(d, tier):
	meta = json.loads((d / 'meta.json').read_text())
	scratch = Path('/tmp/seedverify') / ('re-' + d.name)
	if scratch.exists():
		sh(f'git -C /repo worktree remove --force {scratch}'); shutil.rmtree(scratch, ignore_errors=True)
	scratch.parent.mkdir(exist_ok=True)
	sh(f'git -C /repo worktree add -q --detach {scratch} HEAD')
	res = {}
	try:
		for f in Path('/repo/src/gambit/_cython').iterdir():
			if f.suffix in ('.so', '.c'):
				shutil.copy(f, scratch / 'src/gambit/_cython' / f.name)
		if (d / 'patch.diff').exists() and (d / 'patch.diff').read_text().strip():
			ap = sh(f'git -C {scratch} apply --whitespace=nowarn {d / "patch.diff"}')
			if ap.returncode:
				return d.name, meta['property'], {'apply': 'FAILED ' + ap.stderr[-200:]}
		if (d / 'native.diff').exists():
			err = apply_native(scratch, d / 'native.diff')
			if err:
				return d.name, meta['property'], {'apply': 'FAILED ' + err}
		for pid in meta.get('caught_by') or [meta['property']]:
			if pid != meta['property']:
				continue
			env = dict(os.environ, VERIF_REPO=str(scratch), VERIF_EVIDENCE_DIR=str(scratch / '_ev'))
			if '--seed' in sys.argv:
				env['VERIF_SEED'] = sys.argv[sys.argv.index('--seed') + 1]
			env.pop('PYTHONPATH', None)
			c = sh([str(VERIF / 'check'), pid, '--tier', tier], env=env, timeout=7200)
			res[pid] = c.returncode
	finally:
		sh(f'git -C /repo worktree remove --force {scratch}'); shutil.rmtree(scratch, ignore_errors=True)
		for r_ in (VERIF / '.native').glob('*/.repo'):
			if r_.read_text() == str(scratch):
				shutil.rmtree(r_.parent, ignore_errors=True)
	return d.name, meta['property'], res


def main():
	tier = sys.argv[sys.argv.index('--tier') + 1] if '--tier' in sys.argv else 'quick'
	only = sys.argv[sys.argv.index('--only') + 1] if '--only' in sys.argv else ''
	jobs = int(sys.argv[sys.argv.index('--jobs') + 1]) if '--jobs' in sys.argv else 2
	ds = [d for d in sorted((VERIF / 'seeded').iterdir()) if (d / 'meta.json').exists() and only in d.name]
	bad = 0
	with ThreadPoolExecutor(jobs) as ex:
		for name, prop, res in ex.map(lambda d: one(d, tier), ds):
			neutral = json.loads((VERIF / 'seeded' / name / 'meta.json').read_text()).get('neutralised_by')
			ok = res.get(prop) == (0 if neutral else 1)
			bad += not ok
			print((('SILENT ' if neutral else 'CAUGHT ') if ok else ('ALARM  ' if neutral else 'MISSED ')) + f'{name:52s} {prop} {res}' + (f'  (no longer property-breaking since fix {neutral}: negative control)' if neutral else ''), flush=True)
	print(f'{len(ds) - bad} of {len(ds)} seeded changes behave as expected (caught by the check of their own property; negative controls silent)')
	return 1 if bad else 0


if __name__ == '__main__':
	sys.exit(main())
