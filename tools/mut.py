#!/venv/bin/python
"""Self-test of the monitors: apply one textual mutation to a scratch copy of /repo/src (never to
/repo), run the named checks against the copy (VERIF_REPO), report caught / missed, remove the copy.

  tools/mut.py run <mutation-id> [...]     # ids from tools/mutations.py
  tools/mut.py all [--props C01,C02] [--jobs 2]
  tools/mut.py adhoc --file src/gambit/x.py --old 'a' --new 'b' C01 C06
"""
import sys, os, shutil, subprocess, argparse, json, tempfile, time
from pathlib import Path
from concurrent.futures import ThreadPoolExecutor

VERIF = Path(__file__).resolve().parent.parent
sys.path.insert(0, str(VERIF))
SCRATCH = Path('/tmp/vmut')


def make_copy(name):
	d = SCRATCH / name
	if d.exists():
		shutil.rmtree(d)
	d.mkdir(parents=True)
	shutil.copytree('/repo/src', d / 'src', ignore=shutil.ignore_patterns('__pycache__', '*.egg-info'))
	os.symlink('/repo/tests', d / 'tests')
	return d


def apply_edits(d, edits):
	native = set()
	for e in edits:
		p = d / e['file']
		if p.suffix == '.c':
			native.add(p)
		if 'line' in e:
			lines = p.read_text().split('\n')
			l = lines[e['line'] - 1]
			if l.count(e['old']) != 1:
				raise SystemExit(f'line edit does not apply: {e["file"]}:{e["line"]}: {l!r} vs {e["old"]!r}')
			lines[e['line'] - 1] = l.replace(e['old'], e['new'])
			p.write_text('\n'.join(lines))
			continue
		s = p.read_text()
		cnt = s.count(e['old'])
		want = e.get('count', 1)
		if want == 'any' and cnt > 0:
			want = cnt
		if cnt != want:
			raise SystemExit(f'mutation edit does not apply: {e["file"]}: {cnt} occurrences of {e["old"]!r}, expected {want}')
		p.write_text(s.replace(e['old'], e['new']))
	if native:
		from vf import native as N
		for c in native:
			so = c.with_name(c.stem + N.EXT)
			N.compile_module(c, so, 'plain')


def run_checks(d, props, tier='quick', seed=0):
	res = {}
	for pid in props:
		evd = d / 'evidence'
		env = dict(os.environ, VERIF_REPO=str(d), VERIF_EVIDENCE_DIR=str(evd), VERIF_SEED=str(seed))
		t0 = time.time()
		p = subprocess.run([str(VERIF / 'check'), pid, '--tier', tier], env=env, capture_output=True, text=True)
		lines = [l for l in p.stdout.splitlines() if l.startswith(('VIOLATION', 'INCONCLUSIVE', 'KNOWN-FINDING'))]
		res[pid] = dict(rc=p.returncode, wall=round(time.time() - t0, 1), lines=lines[:6], tail=(p.stdout + p.stderr)[-600:] if p.returncode not in (0, 1) else '')
	return res


def one(m, tier='quick', seed=0, keep=False):
	d = make_copy(m['id'])
	try:
		apply_edits(d, m['edits'])
		res = run_checks(d, m['props'], tier, seed)
	finally:
		if not keep:
			shutil.rmtree(d, ignore_errors=True)
			for r in (VERIF / '.native').glob('*/.repo'):
				if r.read_text() == str(d):
					shutil.rmtree(r.parent, ignore_errors=True)
	expect = m.get('expect', 'caught')
	caught = any(r['rc'] == 1 for r in res.values())
	ok = (caught and expect == 'caught') or (not caught and expect == 'silent' and all(r['rc'] == 0 for r in res.values()))
	return dict(id=m['id'], expect=expect, caught=caught, ok=ok, results=res)


def main():
	ap = argparse.ArgumentParser()
	ap.add_argument('mode', choices=['run', 'all', 'adhoc', 'list'])
	ap.add_argument('args', nargs='*')
	ap.add_argument('--props')
	ap.add_argument('--tier', default='quick')
	ap.add_argument('--seed', type=int, default=0)
	ap.add_argument('--jobs', type=int, default=1)
	ap.add_argument('--file'); ap.add_argument('--old'); ap.add_argument('--new')
	ap.add_argument('--keep', action='store_true')
	ap.add_argument('--json')
	a = ap.parse_args()
	from tools.mutations import MUTATIONS
	if a.mode == 'list':
		for m in MUTATIONS:
			print(m['id'], m['props'], m.get('expect', 'caught'), '-', m.get('desc', ''))
		return 0
	if a.mode == 'adhoc':
		ms = [dict(id='adhoc', props=a.args, edits=[dict(file=a.file, old=a.old, new=a.new)])]
	elif a.mode == 'run':
		ms = [m for m in MUTATIONS if m['id'] in a.args]
	else:
		ms = MUTATIONS
		if a.props:
			want = set(a.props.split(','))
			ms = [m for m in ms if want & set(m['props'])]
	out = []
	with ThreadPoolExecutor(a.jobs) as ex:
		for r in ex.map(lambda m: one(m, a.tier, a.seed, a.keep), ms):
			out.append(r)
			flag = 'OK  ' if r['ok'] else 'MISS'
			print(f'{flag} {r["id"]:40s} expect={r["expect"]:7s} caught={r["caught"]} ' +
			      ' '.join(f'{p}:rc{v["rc"]}/{v["wall"]}s' for p, v in r['results'].items()), flush=True)
			for p, v in r['results'].items():
				for l in v['lines'][:2]:
					print('      ', l[:230])
				if v['tail']:
					print('      tail:', v['tail'][-300:])
	if a.json:
		if a.mode != 'all' or a.props:
			# a subset was run: merge into the existing table (entries of mutants that no longer exist are dropped)
			ids = [m['id'] for m in MUTATIONS]
			prev = {r['id']: r for r in (json.loads(Path(a.json).read_text()) if Path(a.json).exists() else [])}
			prev.update({r['id']: r for r in out})
			out = [prev[i] for i in ids if i in prev]
		Path(a.json).write_text(json.dumps(out, indent=1))
	return 0 if all(r['ok'] for r in out) else 1


if __name__ == '__main__':
	sys.exit(main())
