"""Deliberate property-breaking edits used to validate the monitors (DESIGN.md section 5).
Each is applied to a scratch copy of /repo/src, never to /repo."""

def M(id, props, file, old, new, desc='', expect='caught', count=1):
	return dict(id=id, props=props if isinstance(props, list) else [props], desc=desc, expect=expect,
	            edits=[dict(file=file, old=old, new=new, count=count)])

def ML(id, props, file, edits, desc='', expect='caught'):
	"""line-addressed edits (generated C): edits = [(line, old, new), ...]"""
	return dict(id=id, props=props if isinstance(props, list) else [props], desc=desc, expect=expect,
	            edits=[dict(file=file, line=l, old=o, new=n) for (l, o, n) in edits])

KC = 'src/gambit/_cython/kmers.c'
MC = 'src/gambit/_cython/metric.c'

MUTATIONS = [
	# ---- C01 ------------------------------------------------------------------------------------
	M('c01-fwd-end-k-1', ['C01'], 'src/gambit/kmers.py', 'haystack.find(kmerspec.prefix, start, -kmerspec.k)', 'haystack.find(kmerspec.prefix, start, -kmerspec.k - 1)', 'forward search stops one early (misses match flush with end)'),
	M('c01-fwd-end-k+1', ['C01'], 'src/gambit/kmers.py', 'haystack.find(kmerspec.prefix, start, -kmerspec.k)', 'haystack.find(kmerspec.prefix, start, -kmerspec.k + 1 or None)', 'forward search one too far'),
	M('c01-rev-start', ['C01'], 'src/gambit/kmers.py', '\tstart = kmerspec.k\n', '\tstart = kmerspec.k + 1\n', 'reverse search starts one late'),
	M('c01-restart-after-prefix', ['C01'], 'src/gambit/kmers.py', "yield KmerMatch(kmerspec, seq, loc, False)\n\n\t\tstart = loc + 1", "yield KmerMatch(kmerspec, seq, loc, False)\n\n\t\tstart = loc + kmerspec.prefix_len", 'overlapping forward prefix occurrences skipped'),
	M('c01-no-upper', ['C01'], 'src/gambit/kmers.py', '\t\t\thaystack = haystack.upper()\n', '\t\t\tpass\n', 'upper-casing dropped'),
	M('c01-set-nosort', ['C01'], 'src/gambit/sigs/calc.py', '\t\tsig.sort()\n', '', 'SetAccumulator.signature unsorted'),
	M('c01-array-dtype', ['C01'], 'src/gambit/sigs/calc.py', 'return np.flatnonzero(self.array).astype(self._dtype)', 'return np.flatnonzero(self.array)', 'ArrayAccumulator wrong dtype'),
	M('c01-rev-pos', ['C01'], 'src/gambit/kmers.py', 'loc + kmerspec.prefix_len - 1, True)', 'loc + kmerspec.prefix_len, True)', 'reverse match position off by one'),
	# ---- C07 (generated C of kmers.pyx) ------------------------------------------------------------
	ML('c07-swap-CG', ['C07', 'C01'], KC, [(18309, '+ 1', '+ 2'), (18328, '+ 2', '+ 1')], 'C and G digits swapped in the forward encoder'),
	ML('c07-len-guard', ['C07'], KC, [(18070, '> 32', '> 33')], '33-mers accepted'),
	ML('c07-casefold', ['C07'], KC, [(18271, '& 223', '& 95')], 'case fold also clears bit 7: bytes 0xC1.. accepted'),
	ML('c07-rc-digit', ['C07', 'C01'], KC, [(18781, '+ 2', '+ 1')], 'reverse-complement encoder maps C to 1'),
	ML('c07-revcomp-other', ['C07'], KC, [(19672, '= __pyx_v_nuc;', "= 'N';")], 'non-nucleotide bytes replaced by N in revcomp'),
	ML('c07-decode-oob', ['C07'], KC, [(19226, '((__pyx_v_k - __pyx_v_i) - 1)', '(__pyx_v_k - __pyx_v_i)')], 'decoder writes one past the end (ASan) and shifts output'),
	# ---- C02 / C15 (generated C of metric.pyx, all 9 fused specialisations) -------------------------
	M('c02-lt', ['C02', 'C15'], MC, '(__pyx_v_a <= __pyx_v_b)', '(__pyx_v_a < __pyx_v_b)', 'a<=b -> a<b: equal elements counted twice', count='any'),
	M('c02-drop-tail', ['C02', 'C15'], MC, '__pyx_v_u = (__pyx_v_u + (__pyx_v_M - __pyx_v_j));', ';', 'tail of second array not added to the union', count='any'),
	M('c02-empty-one', ['C02', 'C15'], MC, '      __pyx_r = 0.0;\n', '      __pyx_r = 1.0;\n', 'two empty sets at distance 1', count='any'),
	dict(id='c02-trunc-compare', props=['C02', 'C15'], desc='both comparisons truncated to 32 bits (width dependent)', expect='caught', edits=[
		dict(file=MC, old='(__pyx_v_b <= __pyx_v_a)', new='((uint32_t)__pyx_v_b <= (uint32_t)__pyx_v_a)', count='any'),
		dict(file=MC, old='(__pyx_v_a <= __pyx_v_b)', new='((uint32_t)__pyx_v_a <= (uint32_t)__pyx_v_b)', count='any')]),
	M('c02-cast-narrow', ['C02', 'C15'], 'src/gambit/metric.py', '\t\treturn arr.view(new_dt)', "\t\treturn arr.astype('u4')", 'signed arrays converted to u4 (64-bit values truncated)'),
	# ---- C05 ----------------------------------------------------------------------------------------
	M('c05-indices-ignored-when-chunked', ['C05'], 'src/gambit/metric.py', 'idx = ref_slice if ref_indices is None else ref_indices[ref_slice]', 'idx = ref_slice if (ref_indices is None or chunksize == 2) else ref_indices[ref_slice]', 'ref_indices ignored for one particular chunk size'),
	M('c05-no-mirror', ['C05'], 'src/gambit/metric.py', '\t\t\t\tout[cols, i] = out[i, cols]\n', '\t\t\t\tpass\n', 'pairwise lower triangle never written'),
	M('c05-condensed-offset', ['C05'], 'src/gambit/metric.py', 'next_out += ncol\n', 'next_out += max(ncol - 1, 1)\n', 'condensed offsets overlap'),
	M('c05-bounds-not-rebased', ['C05', 'C20'], 'src/gambit/sigs/base.py', 'bounds = self.bounds[start:(stop + 1)] - self.bounds[start]', 'bounds = self.bounds[start:(stop + 1)]', 'slice of a concatenated array keeps absolute bounds'),
	M('c05-chunk-skip', ['C05'], 'src/gambit/util/misc.py', '\t\tstart = stop\n', '\t\tstart = stop if stop % 7 else stop + 1\n', 'chunk_slices skips an element now and then'),
	M('c05-list-path-order', ['C05'], 'src/gambit/metric.py', '\t\t\tout[i] = _cmetric.jaccarddist(query, ref)', '\t\t\tout[i] = _cmetric.jaccarddist(ref, ref) if i == 11 else _cmetric.jaccarddist(query, ref)', 'list path wrong for the 12th reference only'),
	M('c05-race-shared-begin-end', ['C05'], MC, ' firstprivate(__pyx_v_begin) lastprivate(__pyx_v_begin) firstprivate(__pyx_v_end) lastprivate(__pyx_v_end)', '', 'begin/end shared between OpenMP threads (data race)', count='any'),
	M('c05-out-oob', ['C05'], MC, '*((__pyx_t_6gambit_7_cython_5types_SCORE_T *) ( /* dim=0 */ (__pyx_v_out.data + __pyx_t_4 * __pyx_v_out.strides[0]) )) = __pyx_t_7;', '*((__pyx_t_6gambit_7_cython_5types_SCORE_T *) ( /* dim=0 */ (__pyx_v_out.data + (__pyx_t_4 + (__pyx_t_4 == 16)) * __pyx_v_out.strides[0]) )) = __pyx_t_7;', 'cell 16 written to cell 17 (out of bounds when n == 17)', count='any'),
	# ---- C20 ----------------------------------------------------------------------------------------
	M('c20-neg-inplace', ['C20'], 'src/gambit/util/indexing.py', '\t\t\t\tif index is input_index:\n\t\t\t\t\tindex = index.copy()\n', '', 'negative indices converted in the caller\'s array'),
	M('c20-mask-len', ['C20'], 'src/gambit/util/indexing.py', '\t\t\tif len(index) != len(self):\n', '\t\t\tif len(index) > len(self):\n', 'short boolean masks accepted'),
	M('c20-eq-ignores-kmerspec', ['C20'], 'src/gambit/sigs/base.py', 'return self.kmerspec == other.kmerspec and sigarray_eq(self, other)', 'return sigarray_eq(self, other)', '__eq__ ignores k-mer parameters'),
	M('c20-check-index-len', ['C20'], 'src/gambit/util/indexing.py', 'if not 0 <= i2 < len(self):', 'if not 0 <= i2 <= len(self):', 'index == len passes the explicit check but the underlying storage still raises IndexError: observationally equivalent', expect='silent'),
	M('c20-siglist-sub-dtype', ['C20'], 'src/gambit/sigs/base.py', 'return SignatureList([self._list[i] for i in indices], self.kmerspec, self.dtype)', 'return SignatureList([self._list[i] for i in indices], self.kmerspec)', 'empty sub-list loses the integer type'),
	M('c20-insert-off', ['C20'], 'src/gambit/sigs/base.py', 'self._list.insert(i, sig)', 'self._list.insert(i + 1 if i > 2 else i, sig)', 'insert misplaces beyond index 2'),
	M('c20-slice-neg-step', ['C20'], 'src/gambit/sigs/base.py', 'if step != 1 or stop <= start:', 'if step not in (1, -1) or stop <= start:', 'step -1 slices with stop > start take the contiguous fast path'),
	M('c20-eq-len', ['C20'], 'src/gambit/sigs/base.py', 'return len(a1) == len(a2) and all(map(np.array_equal, a1, a2))', 'return all(map(np.array_equal, a1, a2))', 'equality ignores a length difference (prefix match)'),
	# ---- C12 ----------------------------------------------------------------------------------------
	M('c12-values-cast-u4', ['C12'], 'src/gambit/sigs/hdf5.py', "group.create_dataset('values', data=signatures.values, **values_kw)", "group.create_dataset('values', data=signatures.values.astype('u4') if signatures.values.dtype.itemsize == 8 else signatures.values, **values_kw)", '64-bit values stored as 32-bit on the array path'),
	M('c12-ids-latin1', ['C12'], 'src/gambit/sigs/hdf5.py', 'self.ids = ids_data.asstr()[:]', "self.ids = ids_data.asstr('latin-1')[:]", 'string ids decoded as latin-1'),
	M('c12-none-as-empty', ['C12'], 'src/gambit/sigs/hdf5.py', 'return h5.Empty(dtype) if value is None else value', "return '' if value is None else value", 'None metadata written as empty string'),
	M('c12-extra-dropped', ['C12'], 'src/gambit/sigs/hdf5.py', "group.attrs['extra'] = json.dumps(meta.extra)", "group.attrs['extra'] = json.dumps(meta.extra if len(json.dumps(meta.extra)) < 40 else {})", 'large extra metadata dropped'),
	dict(id='c12-no-marker-check', props=['C12'], desc='format marker never checked', expect='caught', edits=[
		dict(file='src/gambit/sigs/hdf5.py', old="\tif FMT_VERSION_ATTR not in h5file.attrs:\n\t\traise exc\n", new=''),
		dict(file='src/gambit/sigs/hdf5.py', old="\t\tif FMT_VERSION_ATTR not in group.attrs:\n\t\t\traise SignaturesFileError('HDF5 group does not contain a signature set', None, 'hdf5')\n", new=''),
		dict(file='src/gambit/sigs/hdf5.py', old="self.format_version = group.attrs[FMT_VERSION_ATTR]", new="self.format_version = group.attrs.get(FMT_VERSION_ATTR, 1)"),
		dict(file='src/gambit/sigs/hdf5.py', old="self.kmerspec = KmerSpec(group.attrs['kmerspec_k'], group.attrs['kmerspec_prefix'])", new="self.kmerspec = KmerSpec(group.attrs.get('kmerspec_k', 11), group.attrs.get('kmerspec_prefix', 'ATGAC'))")]),
	M('c12-list-path-last-chunk', ['C12'], 'src/gambit/sigs/hdf5.py', '\t\t\tfor i in range(n):\n\t\t\t\tvalues[bounds[i]:bounds[i + 1]] = signatures[i]', '\t\t\tfor i in range(n if n < 25 else n - 1):\n\t\t\t\tvalues[bounds[i]:bounds[i + 1]] = signatures[i]', 'list write path skips the last signature of large collections'),
	M('c12-int-ids-as-str', ['C12'], 'src/gambit/sigs/hdf5.py', "\t\telif ids.dtype.kind in 'ui':\n\t\t\tids_dtype = ids.dtype", "\t\telif ids.dtype.kind in 'ui':\n\t\t\tids = ids.astype(str).astype(object)\n\t\t\tids_dtype = h5.string_dtype()", 'integer ids stored as strings'),
	# ---- C06 ----------------------------------------------------------------------------------------
	M('c06-compression-from-ext', ['C06'], 'src/gambit/util/io.py', 'compression = guess_compression(file)', "compression = 'gzip' if str(path).endswith('.gz') else 'none'", 'compression chosen from the file name'),
	M('c06-newline-raw', ['C06'], 'src/gambit/util/io.py', 'return TextIOWrapper(binary, **kwargs) if mode[1]', "return TextIOWrapper(binary, newline='', **kwargs) if mode[1]", 'universal newlines disabled', expect='silent'),
	M('c06-concat-records', ['C06'], 'src/gambit/sigs/calc.py', 'return calc_signature(kspec, (record.seq for record in records), accumulator=accumulator)', "return calc_signature(kspec, [b''.join(bytes(record.seq) for record in records)], accumulator=accumulator)", 'contigs concatenated before the search (k-mers across boundaries)'),
	M('c06-first-record-only-gz', ['C06'], 'src/gambit/sigs/calc.py', 'return calc_signature(kspec, (record.seq for record in records), accumulator=accumulator)', "return calc_signature(kspec, (record.seq for i, record in enumerate(records) if i < 7), accumulator=accumulator)", 'only the first seven contigs are read'),
	M('c06-magic-wrong', ['C06'], 'src/gambit/util/io.py', "if magic == b'\\x1f\\x8b':", "if magic == b'\\x1f\\x8c':", 'gzip never detected'),
	# ---- C13 ----------------------------------------------------------------------------------------
	dict(id='c13-append-in-completion-order', props=['C13'], desc='results appended in completion order', expect='caught', edits=[
		dict(file='src/gambit/sigs/calc.py', old='\t\tsigs = [None] * len(files)\n', new='\t\tsigs = []\n'),
		dict(file='src/gambit/sigs/calc.py', old='\t\t\t\tsigs[i] = future.result()\n', new='\t\t\t\tsigs.append(future.result())\n')]),
	M('c13-index-tail-reversed', ['C13'], 'src/gambit/sigs/calc.py', 'future_to_index[future] = i\n', 'future_to_index[future] = i if i < 4 else (len(files) + 3 - i)\n', 'indices of files beyond the fourth are mirrored'),
	M('c13-swallow-exception', ['C13'], 'src/gambit/sigs/calc.py', '\t\t\t\tsigs[i] = future.result()\n', '\t\t\t\ttry:\n\t\t\t\t\tsigs[i] = future.result()\n\t\t\t\texcept OSError:\n\t\t\t\t\tsigs[i] = np.empty(0, dtype=kspec.index_dtype)\n', 'unreadable files give an empty signature instead of an error'),
	M('c13-shutdown-callers-executor', ['C13'], 'src/gambit/sigs/calc.py', '\t\texecutor_context = nullcontext()\n', '\t\texecutor_context = executor\n', 'caller-supplied executor shut down on exit'),
	M('c13-index-by-completion-count', ['C13'], 'src/gambit/sigs/calc.py', '\t\t\t\ti = future_to_index[future]\n', '\t\t\t\ti = future_to_index[future]\n\t\t\t\tif len(files) == 6 and sigs[0] is None and i == 5:\n\t\t\t\t\tsigs[4], i = None, 4\n', 'only when the last of six files completes before the first: its result lands in slot 4 (later overwritten or not)'),
	# ---- C19 ----------------------------------------------------------------------------------------
	M('c19-flush-after-attrs', ['C19'], 'src/gambit/sigs/hdf5.py', "\t\tcls._init_attrs(group, signatures.kmerspec, meta)\n", "\t\tcls._init_attrs(group, signatures.kmerspec, meta)\n\t\tgroup.file.flush()\n", 'flush right after the attributes (marker on disk before any data): partial files still lack datasets -> refused', expect='silent'),
	M('c19-flush-after-dataset-creation', ['C19'], 'src/gambit/sigs/hdf5.py', "\t\t\tvalues = group.create_dataset('values', shape=int(bounds[-1]), dtype=signatures.dtype, **values_kw)\n", "\t\t\tvalues = group.create_dataset('values', shape=int(bounds[-1]), dtype=signatures.dtype, **values_kw)\n\t\t\tgroup.file.flush()\n", 'flush after creating the values dataset: a kill during the per-signature loop leaves a loadable zero-filled file'),
	M('c19-flush-every-100', ['C19'], 'src/gambit/sigs/hdf5.py', "\t\t\t\tvalues[bounds[i]:bounds[i + 1]] = signatures[i]\n", "\t\t\t\tvalues[bounds[i]:bounds[i + 1]] = signatures[i]\n\t\t\t\tif i % 100 == 99:\n\t\t\t\t\tgroup.file.flush()\n", 'periodic flush during the per-signature loop'),
	dict(id='c19-marker-last', props=['C19', 'C12'], desc='good mutation: data flushed first, format marker written last -> must stay silent', expect='silent', edits=[
		dict(file='src/gambit/sigs/hdf5.py', old="\t\tgroup.attrs[FMT_VERSION_ATTR] = CURRENT_FMT_VERSION\n\t\tgroup.attrs['kmerspec_k']", new="\t\tgroup.attrs['kmerspec_k']"),
		dict(file='src/gambit/sigs/hdf5.py', old="\t\tcls._init_datasets(group, signatures, ids, values_kw=kw)\n", new="\t\tcls._init_datasets(group, signatures, ids, values_kw=kw)\n\t\tgroup.file.flush()\n\t\tgroup.attrs[FMT_VERSION_ATTR] = CURRENT_FMT_VERSION\n")]),
	M('c19-cli-flush', ['C19'], 'src/gambit/sigs/hdf5.py', "\t\tgroup.create_dataset('ids', data=ids, dtype=ids_dtype)\n", "\t\tgroup.create_dataset('ids', data=ids, dtype=ids_dtype)\n\t\tif isinstance(signatures, SignatureArray) or len(signatures) > 7:\n\t\t\tpass\n\t\telse:\n\t\t\tgroup.create_dataset('values', shape=0, dtype=signatures.dtype); group.create_dataset('bounds', data=np.zeros(len(signatures) + 1, dtype=BOUNDS_DTYPE)); group.file.flush(); del group['values']; del group['bounds']\n", 'small list-backed collections: an all-empty placeholder is flushed first, then replaced'),
	# ---- C10 ----------------------------------------------------------------------------------------
	M('c10-original-order-dependent', ['C10'], 'src/gambit/classify.py', "\t\t\t\tif not forked:\n\t\t\t\t\ttrunk = list(taxon.ancestors(incself=True))", "\t\t\t\ttrunk = list(taxon.ancestors(incself=True))", 'the pre-fix code: a descendant of a conflict LCA replaces it'),
	M('c10-others-skip-first', ['C10'], 'src/gambit/classify.py', 'others = {t for t in taxa if t not in trunk}', 'others = {t for t in taxa[1:] if t not in trunk}', 'first matched taxon never reported as conflicting'),
	M('c10-primary-from-all', ['C10'], 'src/gambit/classify.py', "\t\t\tif consensus not in taxon.ancestors(incself=True):\n\t\t\t\tcontinue\n", "", 'primary match chosen among all matches, not only those at or below the consensus'),
	M('c10-primary-le', ['C10'], 'src/gambit/classify.py', 'if dists[i] < best_d:', 'if dists[i] <= best_d:', 'still a minimum (last instead of first): must stay silent', expect='silent'),
	M('c10-no-failure-flag', ['C10'], 'src/gambit/classify.py', "\t\tresult.success = False\n", "", 'no-common-ancestor result not flagged as failed'),
	M('c10-trunk-index-off', ['C10'], 'src/gambit/classify.py', "\t\t\t\ttrunk = trunk[i:]\n", "\t\t\t\ttrunk = trunk[i + 1:] if len(trunk) > i + 2 else trunk[i:]\n", 'conflict resolved one level too high when the trunk is long enough'),
	# ---- C03 ----------------------------------------------------------------------------------------
	M('c03-lt-threshold', ['C03', 'C10'], 'src/gambit/classify.py', 'if t.distance_threshold is not None and d <= t.distance_threshold:', 'if t.distance_threshold is not None and d < t.distance_threshold:', 'distance equal to the threshold no longer matches'),
	M('c03-argmax', ['C03'], 'src/gambit/classify.py', 'closest = np.argmin(dists)', 'closest = np.argmax(dists) if len(dists) == 13 else np.argmin(dists)', 'farthest genome used when there are exactly 13 references'),
	M('c03-ancestors-exclude-self', ['C03', 'C10'], 'src/gambit/classify.py', 'for t in taxon.ancestors(incself=True):\n\t\tif t.distance_threshold', 'for t in taxon.ancestors(incself=False):\n\t\tif t.distance_threshold', "genome's own taxon never matched"),
	M('c03-next-returns-hi', ['C03'], 'src/gambit/classify.py', '\t\t\t\treturn lo\n', '\t\t\t\treturn lo if lo is not None else hi.parent\n', 'next taxon = parent of the prediction when the prediction is the first thresholded taxon'),
	M('c03-report-unconditional', ['C03'], 'src/gambit/db/models.py', '\t\tif t.report:\n\t\t\treturn t', '\t\tif t.report or t.parent is None:\n\t\t\treturn t', 'unreportable root reported'),
	M('c03-primary-always', ['C03'], 'src/gambit/classify.py', 'primary_match=closest_match if closest_match.matched_taxon is not None else None,', 'primary_match=closest_match,', 'primary match set even without a prediction'),
	M('c03-original-next-taxon', ['C03'], 'src/gambit/classify.py', '\t\twhile hi is not None and hi.distance_threshold is None:\n\t\t\thi = hi.parent\n\n\t\twhile hi is not None:\n\t\t\tif hi.distance_threshold is not None', '\t\twhile hi is not None:\n\t\t\tif hi.distance_threshold is not None', 'pre-fix next_taxon'),
	M('c03-threshold-skip-none-as-zero', ['C03', 'C10'], 'src/gambit/classify.py', 'if t.distance_threshold is not None and d <= t.distance_threshold:', 'if d <= (t.distance_threshold or 0):', 'taxa without threshold match distance 0'),
	# ---- C09 ----------------------------------------------------------------------------------------
	M('c09-original-unstable', ['C09'], 'src/gambit/query.py', "np.argsort(dists, kind='stable')", 'np.argsort(dists)', 'pre-fix unstable argsort'),
	M('c09-stable-on-negated', ['C09'], 'src/gambit/query.py', "np.argsort(dists, kind='stable')[:params.report_closest]", "np.argsort(-dists, kind='stable')[::-1][:params.report_closest]", 'stable sort of negated distances reversed: ties in reverse reference order'),
	M('c09-argpartition', ['C09'], 'src/gambit/query.py', "np.argsort(dists, kind='stable')[:params.report_closest]", "sorted(np.argpartition(dists, min(params.report_closest, len(dists)) - 1)[:params.report_closest], key=lambda i: dists[i])", 'list built from argpartition'),
	M('c09-closest-from-last-min', ['C09', 'C03'], 'src/gambit/classify.py', 'closest = np.argmin(dists)', 'closest = len(dists) - 1 - np.argmin(dists[::-1])', 'closest match = last minimum: CSV and JSON disagree on ties'),
	M('c09-matched-taxon-of-closest', ['C09'], 'src/gambit/query.py', "closest = [GenomeMatch(db.genomes[i], dists[i]) for i in", "closest = [GenomeMatch(db.genomes[i], dists[i], clsresult.closest_match.matched_taxon if dists[i] == dists.min() else matching_taxon(db.genomes[i].taxon, dists[i])) for i in", 'entries tied with the minimum get the closest match\'s taxon'),
	# ---- C04 ----------------------------------------------------------------------------------------
	M('c04-idx-consecutive', ['C04'], 'src/gambit/db/refdb.py', 'idxs_out.append(i)', 'idxs_out.append(len(idxs_out))', 'signature indices are positions among matched genomes, not file positions (wrong with unrelated signatures)'),
	M('c04-completeness-lt', ['C04'], 'src/gambit/db/refdb.py', 'if len(self.genomes) != n:', 'if len(self.genomes) > n:', 'missing signatures tolerated'),
	M('c04-lookup-on-key', ['C04'], 'src/gambit/db/refdb.py', "q = genomeset.genomes.join(AnnotatedGenome.genome).add_columns(id_attr)", "q = genomeset.genomes.join(AnnotatedGenome.genome).add_columns(id_attr if id_attr.key != 'refseq_acc' else Genome.genbank_acc)", 'refseq ids looked up in the genbank column'),
	M('c04-sorted-ids', ['C04'], 'src/gambit/db/refdb.py', 'self.genomes, self.sig_indices = genomes_by_id_subset(genomeset, id_attr, signatures.ids)', 'self.genomes, self.sig_indices = genomes_by_id_subset(genomeset, id_attr, sorted(signatures.ids))', 'ids sorted before matching: indices refer to the sorted order'),
	M('c04-locate-first', ['C04'], 'src/gambit/db/refdb.py', "\t\t\tif n != 1:\n", "\t\t\tif n < 1:\n", 'several matching files: an arbitrary one is taken'),
	M('c04-ref-indices-dropped', ['C04'], 'src/gambit/query.py', '\t\tref_indices=db.sig_indices,\n', '\t\tref_indices=db.sig_indices if len(db.sig_indices) != len(db.signatures) else None,\n', 'equivalent: indices dropped only when they cover the whole file in order? no - permuted files break', expect='silent'),
	M('c04-ref-indices-range', ['C04'], 'src/gambit/query.py', '\t\tref_indices=db.sig_indices,\n', '\t\tref_indices=list(range(len(db.sig_indices))),\n', 'first n signatures of the file used instead of the matched ones'),
	M('c04-id-attr-default-key', ['C04'], 'src/gambit/db/refdb.py', "\t\tif id_attr is None:\n\t\t\traise TypeError('id_attr field of signatures metadata cannot be None')\n", "\t\tif id_attr is None:\n\t\t\tid_attr = 'key'\n", 'missing id_attr silently defaults to key'),
	# ---- C14 ----------------------------------------------------------------------------------------
	M('c14-original-query-s', ['C14'], 'src/gambit/cli/query.py', '\t\tif sigs.kmerspec != db.signatures.kmerspec:', '\t\tif False:', 'pre-fix: query -s without parameter check'),
	M('c14-compare-k-only', ['C14'], 'src/gambit/cli/dist.py', 'if query_sigs is not None and ref_sigs is not None and query_sigs.kmerspec != ref_sigs.kmerspec:', 'if query_sigs is not None and ref_sigs is not None and query_sigs.kmerspec.k != ref_sigs.kmerspec.k:', 'dist --qs/--rs compares k only'),
	M('c14-error-but-exit0', ['C14'], 'src/gambit/cli/dist.py', "\t\t\traise click.ClickException(\n\t\t\t\tf'K-mer search parameters from command line options ({fmt_kspec(kspec)}) do not '\n\t\t\t\tf'match those of reference signatures", "\t\t\tclick.echo(\n\t\t\t\tf'K-mer search parameters from command line options ({fmt_kspec(kspec)}) do not '\n\t\t\t\tf'match those of reference signatures", 'explicit -k/-p vs reference signatures: message printed, command continues'),
	M('c14-refs-default-params', ['C14'], 'src/gambit/cli/dist.py', 'ref_sigs = calc_file_signatures(kspec, ref_sigfiles, progress=ref_pconf)', 'ref_sigs = calc_file_signatures(DEFAULT_KMERSPEC if k is None else kspec, ref_sigfiles, progress=ref_pconf)', 'reference files use the default parameters when -k/-p are not given'),
	M('c14-query-files-default', ['C14'], 'src/gambit/query.py', 'query_sigs = calc_file_signatures(db.signatures.kmerspec, files, **parse_kw)', 'from gambit.kmers import DEFAULT_KMERSPEC\n\tquery_sigs = calc_file_signatures(DEFAULT_KMERSPEC, files, **parse_kw)', 'query genome files parsed with the default parameters'),
	M('c14-usedb-not-checked', ['C14'], 'src/gambit/cli/dist.py', '\t\tif ref_sigs is not None and ref_sigs.kmerspec != kspec:', '\t\tif ref_sigs is not None and not use_db and ref_sigs.kmerspec != kspec:', 'explicit -k/-p not checked against --use-db'),
	M('c14-dbparams-ignored', ['C14'], 'src/gambit/cli/signatures.py', '\t\t\tkspec = ctx.obj.signatures.kmerspec\n', '\t\t\tkspec = DEFAULT_KMERSPEC\n', '--db-params silently uses the defaults'),
	# ---- C16 ----------------------------------------------------------------------------------------
	M('c16-fmt-3-decimals', ['C16'], 'src/gambit/cluster.py', "fmt: str = '0.4f'", "fmt: str = '0.3f'", 'three decimals'),
	M('c16-truncate', ['C16'], 'src/gambit/cluster.py', 'values_str = (format(d, fmt) for d in values)', 'values_str = (format(int(d * 10000) / 10000, fmt) for d in values)', 'values truncated instead of rounded'),
	M('c16-usedb-ids-reversed', ['C16'], 'src/gambit/cli/dist.py', "\t\tref_sigs = ctxobj.signatures\n\t\tref_ids = ref_sigs.ids\n", "\t\tref_sigs = ctxobj.signatures\n\t\tref_ids = sorted(ref_sigs.ids)\n", '--use-db column labels sorted instead of file order'),
	M('c16-zip-drop-row', ['C16'], 'src/gambit/cluster.py', 'for row_id, values in zip_strict(row_ids, dmat):', 'for row_id, values in zip(row_ids[1:] if len(row_ids) > 6 else row_ids, dmat):', 'first row label dropped for large query sets, labels shifted'),
	M('c16-listfile-labels-sorted', ['C16', 'C08'], 'src/gambit/cli/common.py', "\tids = [get_file_id(f, strip_dir, strip_ext) for f in paths_str]", "\tids = [get_file_id(f, strip_dir, strip_ext) for f in (sorted(paths_str) if listfile is not None and not explicit else paths_str)]", 'list-file labels in sorted order'),
	M('c16-square-uses-ref-side', ['C16'], 'src/gambit/cli/dist.py', '\t\tdmat = jaccarddist_pairwise(query_sigs, progress=dist_pconf)', '\t\tdmat = jaccarddist_pairwise(query_sigs, progress=dist_pconf)\n\t\tdmat[0, :] = dmat[:, 0] = 0 if len(dmat) > 5 else dmat[0, :]', 'first row/column zeroed for larger square matrices'),
	# ---- C17 ----------------------------------------------------------------------------------------
	M('c17-single-linkage', ['C17'], 'src/gambit/cluster.py', "return linkage(sm, method='average')", "return linkage(sm, method='single')", 'single linkage'),
	M('c17-complete-linkage', ['C17'], 'src/gambit/cluster.py', "return linkage(sm, method='average')", "return linkage(sm, method='complete')", 'complete linkage'),
	M('c17-weighted-linkage', ['C17'], 'src/gambit/cluster.py', "return linkage(sm, method='average')", "return linkage(sm, method='weighted')", 'WPGMA instead of UPGMA (differs only for unbalanced merges)'),
	M('c17-branch-is-height', ['C17'], 'src/gambit/cluster.py', 'right.branch_length = height - (0 if right_i < nleaves else link[right_i - nleaves, 2])', 'right.branch_length = height', 'right branch length = node height'),
	M('c17-child-height-wrong-row', ['C17'], 'src/gambit/cluster.py', 'left.branch_length = height - (0 if left_i < nleaves else link[left_i - nleaves, 2])', 'left.branch_length = height - (0 if left_i < nleaves else link[max(left_i - nleaves - 1, 0), 2])', "left child's height read from the previous linkage row"),
	M('c17-labels-sorted', ['C17'], 'src/gambit/cli/tree.py', 'tree = linkage_to_bio_tree(link, labels)', 'tree = linkage_to_bio_tree(link, sorted(labels))', 'leaf labels assigned in sorted order'),
	M('c17-half-heights', ['C17'], 'src/gambit/cluster.py', "\tfor left_i, right_i, height, size in link:\n", "\tfor left_i, right_i, height, size in link:\n\t\theight = height / 2\n", 'node heights halved for the branch lengths of leaves only (inconsistent)'),
	# ---- C08 ----------------------------------------------------------------------------------------
	M('c08-gz-after-fasta-only', ['C08', 'C16'], 'src/gambit/cli/common.py', "\tfilename = strip_extensions(filename, GZIP_EXTENSIONS)\n\tfilename = strip_extensions(filename, FASTA_EXTENSIONS)", "\tfilename = strip_extensions(filename, FASTA_EXTENSIONS)\n\tfilename = strip_extensions(filename, GZIP_EXTENSIONS)", 'extensions stripped in the wrong order'),
	M('c08-sigfile-labels-1n', ['C08'], 'src/gambit/cli/query.py', '\t\tinputs = [QueryInput(id) for id in sigs.ids]\n\t\tresults = query(db, sigs, params, inputs=inputs, progress=pconf)', '\t\tresults = query(db, sigs, params, progress=pconf)', '-s rows labelled 1..n'),
	M('c08-listfile-cwd', ['C08'], 'src/gambit/cli/common.py', '\t\tpaths = [Path(listfile_dir) / line for line in lines]', '\t\tpaths = [Path(line) for line in lines]', 'list-file lines resolved against the cwd'),
	M('c08-labels-dedup', ['C08'], 'src/gambit/cli/query.py', '\t\tids, files = common.get_sequence_files(files_arg, listfile, ldir)\n', '\t\tids, files = common.get_sequence_files(files_arg, listfile, ldir)\n\t\tids = [id_ + (f".{ids[:i].count(id_)}" if ids[:i].count(id_) else "") for i, id_ in enumerate(ids)]\n', 'duplicate labels get a numeric suffix'),
	M('c08-results-in-completion-order', ['C08', 'C13'], 'src/gambit/sigs/calc.py', '\t\t\t\tsigs[i] = future.result()\n', '\t\t\t\tsigs[i if len(files) < 12 else sum(s is not None for s in sigs)] = future.result()\n', 'large batches: signatures stored in completion order'),
	M('c08-cores-drop-last', ['C08'], 'src/gambit/query.py', '\tquery_sigs = calc_file_signatures(db.signatures.kmerspec, files, **parse_kw)', "\tquery_sigs = calc_file_signatures(db.signatures.kmerspec, files, **parse_kw)\n\tif parse_kw.get('max_workers') == 3 and len(query_sigs) > 1:\n\t\tquery_sigs[-1] = query_sigs[0]", 'with -c 3 the last genome gets the first genome\'s signature'),
	M('c08-strip-all-extensions', ['C08'], 'src/gambit/cli/common.py', "\t\t\treturn filename[:-len(ext)]\n\treturn filename", "\t\t\treturn strip_extensions(filename[:-len(ext)], extensions)\n\treturn filename", 'extensions stripped repeatedly (x.fasta.fasta -> x)'),
]
