"""Deliberate property-breaking edits used to validate the monitors (DESIGN.md section 5).
Each is applied to a scratch copy of /repo/src, never to /repo."""

def M(id, props, file, old, new, desc='', expect='caught', count=1):
	return dict(id=id, props=props if isinstance(props, list) else [props], desc=desc, expect=expect,
	            edits=[dict(file=file, old=old, new=new, count=count)])

MUTATIONS = [
	# ---- C01 ------------------------------------------------------------------------------------
	M('c01-fwd-end-k-1', ['C01'], 'src/gambit/kmers.py', 'haystack.find(kmerspec.prefix, start, -kmerspec.k)', 'haystack.find(kmerspec.prefix, start, -kmerspec.k - 1)', 'forward search stops one early (misses match flush with end)'),
	M('c01-fwd-end-k+1', ['C01'], 'src/gambit/kmers.py', 'haystack.find(kmerspec.prefix, start, -kmerspec.k)', 'haystack.find(kmerspec.prefix, start, -kmerspec.k + 1 or None)', 'forward search one too far'),
	M('c01-rev-start', ['C01'], 'src/gambit/kmers.py', '\tstart = kmerspec.k\n', '\tstart = kmerspec.k + 1\n', 'reverse search starts one late'),
	M('c01-restart-after-prefix', ['C01'], 'src/gambit/kmers.py', "yield KmerMatch(kmerspec, seq, loc, False)\n\n\t\tstart = loc + 1", "yield KmerMatch(kmerspec, seq, loc, False)\n\n\t\tstart = loc + kmerspec.prefix_len", 'overlapping forward prefix occurrences skipped'),
	M('c01-no-upper', ['C01'], 'src/gambit/kmers.py', '\t\t\thaystack = haystack.upper()\n', '\t\t\tpass\n', 'upper-casing dropped'),
	M('c01-set-nosort', ['C01'], 'src/gambit/sigs/calc.py', '\t\tsig.sort()\n', '', 'SetAccumulator.signature unsorted'),
	M('c01-array-dtype', ['C01'], 'src/gambit/sigs/calc.py', 'return np.flatnonzero(self.array).astype(self._dtype)', 'return np.flatnonzero(self.array)', 'ArrayAccumulator wrong dtype'),
	M('c01-rev-pos', ['C01'], 'src/gambit/kmers.py', 'loc + kmerspec.prefix_len - 1, True)', 'loc + kmerspec.prefix_len, True)', 'reverse match position off by one'),
]
