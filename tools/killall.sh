#!/bin/sh
# kill stray harness processes (workers, mutation driver); patterns live in this file, not on the caller's command line
for pat in "vf[.]worker" "vf[.]main" "tools/mut[.]py"; do
  for p in $(pgrep -f "$pat"); do [ "$p" != "$$" ] && kill -9 "$p" 2>/dev/null; done
done
exit 0
