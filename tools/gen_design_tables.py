#!/venv/bin/python
"""Rewrite the auto-generated tables of DESIGN.md (sections 11 and 12) from tools/mutation_results.json and seeded/*/meta.json."""
import json, re, sys
from pathlib import Path
VERIF = Path(__file__).resolve().parent.parent
sys.path.insert(0, str(VERIF))
from tools.mutations import MUTATIONS


def mut_table():
	res = {}
	p = VERIF / 'tools' / 'mutation_results.json'
	if p.exists():
		for r in json.loads(p.read_text()):
			res[r['id']] = r
	rows = ['| mutation | what is changed | expected | checks that fired (quick tier) | first monitor line |', '|---|---|---|---|---|']
	n_ok = n = 0
	for m in MUTATIONS:
		r = res.get(m['id'])
		if not r:
			rows.append(f"| `{m['id']}` | {m.get('desc','')} | {m.get('expect','caught')} | (not run) | |")
			continue
		n += 1
		n_ok += bool(r['ok'])
		fired = [p_ for p_, v in r['results'].items() if v['rc'] == 1]
		silent = [p_ for p_, v in r['results'].items() if v['rc'] == 0]
		other = [f"{p_}:rc{v['rc']}" for p_, v in r['results'].items() if v['rc'] not in (0, 1)]
		line = ''
		for p_ in fired:
			ls = [l for l in r['results'][p_]['lines'] if l.startswith('VIOLATION')]
			if ls:
				mm = re.search(r'mech=(\S+)', ls[0])
				line = mm.group(1) if mm else ''
				break
		rows.append(f"| `{m['id']}` | {m.get('desc','').replace('|','/')} | {m.get('expect','caught')} | {', '.join(fired) or '-'}{(' (silent: ' + ', '.join(silent) + ')') if silent and fired else ''}{' ' + ' '.join(other) if other else ''} | `{line}` |")
	head = f'{n_ok} of {n} mutations behave as expected (caught where a property is broken, silent where the mutant is observationally equivalent or a legitimate variant).\n\n'
	return head + '\n'.join(rows)


def seed_table():
	rows = ['| seeded change | property | what it does | what it needs to manifest | confirmed (demo passes before / fails after, 542 tests unchanged) | caught by |', '|---|---|---|---|---|---|']
	for d in sorted((VERIF / 'seeded').iterdir()):
		mp = d / 'meta.json'
		if not mp.exists():
			continue
		m = json.loads(mp.read_text())
		rows.append(f"| `{d.name}` | {m.get('property')} | {m.get('summary','').replace('|','/')} | {m.get('needs_to_manifest','').replace('|','/')} | {'yes' if m.get('confirmed') else 'NO'} | {', '.join(m.get('caught_by', [])) or '**missed**'}{' (' + m['history'] + ')' if m.get('history') else ''} |")
	return '\n'.join(rows)


def main():
	p = VERIF / 'DESIGN.md'
	s = p.read_text()
	for name, fn in (('mutations', mut_table), ('seeded', seed_table)):
		b, e = f'<!-- BEGIN AUTO:{name} -->', f'<!-- END AUTO:{name} -->'
		if b in s:
			i, j = s.index(b) + len(b), s.index(e)
			s = s[:i] + '\n' + fn() + '\n' + s[j:]
	p.write_text(s)
	print('tables regenerated')


if __name__ == '__main__':
	main()
